//! C15 - session cache: drives the real `LruTimeCache<u64, u64>` in real time (the structure reads
//! `Instant::now()` itself), brackets every call with measured instants, runs the direct monitor
//! and writes the Coq case files for the correspondence with coq/Model/Lru.v.
//!
//! `verif-harness lru --seed S --cases N --out DIR [--only I] [--model fixed|pinned]`
use crate::common::*;
use discv5::verif::cache::LruTimeCache;
use std::collections::BTreeSet;
use std::time::{Duration, Instant};

/// ttl of the caches under test and the grid on which operations are spaced: ages are multiples
/// of 40 ms (plus scheduling jitter), so 0/40/80 ms are inside and 120/160/... ms outside the ttl
/// with a margin of 20 ms on either side.
pub const TTL_MS: u64 = 100;
pub const GRID_MS: u64 = 40;
/// `None` capacity of the Rust constructor (usize::MAX) as the model sees it.
pub const CAP_NONE: u64 = u64::MAX;

#[derive(Clone, Debug)]
pub enum Op {
    Insert(u64, u64),
    Get(u64),
    GetMut(u64, Option<u64>),
    Peek(u64),
    Remove(u64),
    Len,
    RemoveExpired,
}

pub fn coq_op(op: &Op) -> String {
    match op {
        Op::Insert(k, v) => format!("Insert {} {}", k, v),
        Op::Get(k) => format!("Get {}", k),
        Op::GetMut(k, w) => format!("GetMut {} {}", k, coq_opt(w.map(|x| x.to_string()))),
        Op::Peek(k) => format!("Peek {}", k),
        Op::Remove(k) => format!("Remove {}", k),
        Op::Len => "Len".into(),
        Op::RemoveExpired => "RemoveExpired".into(),
    }
}

fn op_name(op: &Op) -> &'static str {
    match op {
        Op::Insert(..) => "insert",
        Op::Get(..) => "get",
        Op::GetMut(_, None) => "get_mut",
        Op::GetMut(_, Some(_)) => "get_mut+write",
        Op::Peek(..) => "peek",
        Op::Remove(..) => "remove",
        Op::Len => "len",
        Op::RemoveExpired => "remove_expired_values",
    }
}

pub struct GenCase {
    pub capacity: Option<usize>,
    pub ttl_ms: u64,
    /// (gap before the operation in grid units, operation)
    pub ops: Vec<(u64, Op)>,
}

pub fn gen_case(rng: &mut Rng, thorough: bool) -> GenCase {
    // every capacity >= 1; small ones so that evictions are frequent; sometimes unbounded
    let capacity = match rng.weighted(&[3, 3, 3, 2, 2, 1, 1]) {
        0 => Some(1),
        1 => Some(2),
        2 => Some(3),
        3 => Some(4),
        4 => Some(rng.range(5, 8) as usize),
        5 => None,
        _ => Some(rng.range(1, 3) as usize),
    };
    let nkeys = match capacity {
        Some(c) => c as u64 + rng.range(1, 3),
        None => rng.range(3, 8),
    };
    let nops = if thorough { rng.range(24, 60) } else { rng.range(14, 30) } as usize;
    let mut ops = vec![];
    let mut next_val = 100u64;
    let mut recent: Vec<u64> = vec![];
    // scripted opening (one case in four with a capacity of at least 3): the cache is filled up to one
    // short of its capacity, the oldest entry is read (that makes it the most recently used one),
    // then two more keys arrive - the entry dropped is the second oldest, not the one just read
    if let Some(c) = capacity {
        if c >= 3 && rng.chance(1, 4) {
            for k in 1..c as u64 {
                next_val += 1;
                ops.push((0, Op::Insert(k, next_val)));
                recent.push(k);
            }
            ops.push((0, if rng.chance(1, 2) { Op::Get(1) } else { Op::GetMut(1, None) }));
            for k in c as u64..c as u64 + 2 {
                next_val += 1;
                ops.push((0, Op::Insert(k, next_val)));
                recent.push(k);
            }
        }
    }
    for _ in 0..nops {
        // gaps: mostly none; 1-2 units = refreshed within the ttl; 3+ = idle longer than the ttl
        let gap = match rng.weighted(&[56, 14, 12, 10, 6, 2]) {
            0 => 0,
            1 => 1,
            2 => 2,
            3 => 3,
            4 => 4,
            _ => 6,
        };
        // mostly keys inserted recently (likely still held), otherwise any candidate key
        let k = if !recent.is_empty() && rng.chance(2, 3) {
            let window = recent.len().min(match capacity {
                Some(c) => c + 1,
                None => 4,
            });
            recent[recent.len() - 1 - rng.below(window as u64) as usize]
        } else {
            rng.range(1, nkeys)
        };
        let op = match rng.weighted(&[30, 12, 18, 10, 6, 8, 10]) {
            0 => {
                next_val += 1;
                let k = if rng.chance(1, 2) { rng.range(1, nkeys) } else { k };
                recent.retain(|x| *x != k);
                recent.push(k);
                Op::Insert(k, next_val)
            }
            1 => Op::Get(k),
            2 => {
                if rng.chance(1, 3) {
                    next_val += 1;
                    Op::GetMut(k, Some(next_val))
                } else {
                    Op::GetMut(k, None)
                }
            }
            3 => Op::Peek(k),
            4 => Op::Remove(k),
            5 => Op::Len,
            _ => Op::RemoveExpired,
        };
        ops.push((gap, op));
    }
    GenCase { capacity, ttl_ms: TTL_MS, ops }
}

pub const HEADER: &str = "From Coq Require Import List NArith.\nImport ListNotations.\nFrom Discv5V Require Import Model.Lru Run.Common Run.LruRun.\nOpen Scope N_scope.";

pub struct CaseResult {
    pub coq: String,
    pub failures: Vec<(String, String, usize)>, // (signature text, detail, step)
    pub nontrivial: bool,
    pub canon: u64,
    pub steps: usize,
    pub ambiguous: u64,
    pub hist: Hist,
    pub max_bracket_ns: u64,
}

/// What the property text expects the cache to hold: keys in order of last use (sequence numbers,
/// no clock ties), with the bracket of the instant of the last use.
struct Ledger {
    /// (key, value, earliest, latest possible instant of the last use), least recently used first
    items: Vec<(u64, u64, u64, u64)>,
}
impl Ledger {
    fn pos(&self, k: u64) -> Option<usize> {
        self.items.iter().position(|e| e.0 == k)
    }
}

fn ns(base: Instant, t: Instant) -> u64 {
    t.duration_since(base).as_nanos() as u64
}

pub fn run_case(id: u64, g: &GenCase) -> CaseResult {
    let mut hist = Hist::default();
    let ttl = Duration::from_millis(g.ttl_ms);
    let ttl_ns = ttl.as_nanos() as u64;
    let cap_model = g.capacity.map(|c| c as u64).unwrap_or(CAP_NONE);
    hist.add(&format!("capacity:{}", g.capacity.map(|c| c.to_string()).unwrap_or("none".into())));
    let base = Instant::now();
    let mut cache: LruTimeCache<u64, u64> = LruTimeCache::new(ttl, g.capacity);
    let mut ledger = Ledger { items: vec![] };
    let mut steps = vec![];
    let mut failures: Vec<(String, String, usize)> = vec![];
    let mut seen: BTreeSet<String> = BTreeSet::new();
    let mut fail = |failures: &mut Vec<(String, String, usize)>, sig: &str, detail: String, i: usize| {
        if seen.insert(sig.to_string()) {
            failures.push((sig.to_string(), detail, i));
        }
    };
    let mut deadline = Duration::from_millis(0);
    let mut h: u64 = 1469598103934665603;
    let mut ambiguous = 0u64;
    let mut saw_eviction = false;
    let mut saw_expired_access = false;
    let mut max_bracket = 0u64;
    for (i, (gap, op)) in g.ops.iter().enumerate() {
        deadline += Duration::from_millis(gap * GRID_MS);
        let target = base + deadline;
        let nowi = Instant::now();
        if target > nowi {
            std::thread::sleep(target - nowi);
        }
        hist.add(&format!("gap:{}", gap));
        hist.add(&format!("op:{}", op_name(op)));
        let before = cache.verif_dump();
        let lo_i = Instant::now();
        let res = catch(std::panic::AssertUnwindSafe(|| match op {
            Op::Insert(k, v) => {
                cache.insert(*k, *v);
                (0u64, None, vec![])
            }
            Op::Get(k) => (1, cache.get(k).copied(), vec![]),
            Op::GetMut(k, w) => {
                let r = cache.get_mut(k);
                match r {
                    Some(slot) => {
                        let old = *slot;
                        if let Some(x) = w {
                            *slot = *x;
                        }
                        (1, Some(old), vec![])
                    }
                    None => (1, None, vec![]),
                }
            }
            Op::Peek(k) => (1, cache.peek(k).copied(), vec![]),
            Op::Remove(k) => (1, cache.remove(k), vec![]),
            Op::Len => (2, Some(cache.len() as u64), vec![]),
            Op::RemoveExpired => (3, None, cache.remove_expired_values()),
        }));
        let hi_i = Instant::now();
        let (kind, val, keys) = match res {
            Ok(x) => x,
            Err(m) => {
                fail(&mut failures, "panic in the cache", m, i);
                break;
            }
        };
        let after = cache.verif_dump();
        let (mut lo, mut hi) = (ns(base, lo_i), ns(base, hi_i));
        max_bracket = max_bracket.max(hi - lo);
        // operations that stamp an entry: the stamp is the instant the cache read
        let stamped_key = match (op, &val) {
            (Op::Insert(k, _), _) => Some(*k),
            (Op::Get(k), Some(_)) | (Op::GetMut(k, _), Some(_)) => Some(*k),
            _ => None,
        };
        let (raw_lo, raw_hi) = (lo, hi);
        if let Some(k) = stamped_key {
            if let Some(e) = after.iter().find(|e| e.0 == k) {
                let st = ns(base, e.2);
                if st < lo || st > hi {
                    fail(&mut failures, "stamp outside the measured bracket", format!("key {} stamp {} bracket {}..{}", k, st, lo, hi), i);
                }
                lo = st;
                hi = st;
            }
            // (capacity 0 is not generated: the entry is always present after a stamping call
            //  unless it was evicted at once, which needs capacity 0)
        }
        let amb = lo < hi && before.iter().any(|e| {
            let x = ns(base, e.2) + ttl_ns;
            lo <= x && x < hi
        });
        if amb {
            ambiguous += 1;
        }
        // ---- encoding for the model
        let mut e = Enc::new();
        match kind {
            0 => {
                e.n(0);
            }
            1 => {
                e.n(1);
                match val {
                    Some(v) => {
                        e.n(1).n(v);
                    }
                    None => {
                        e.n(0);
                    }
                }
            }
            2 => {
                e.n(2).n(val.unwrap());
            }
            _ => {
                e.n(3).n(keys.len() as u64);
                for k in &keys {
                    e.n(*k);
                }
            }
        }
        e.n(after.len() as u64);
        for (k, v, t) in &after {
            e.n(*k).n(*v).n(ns(base, *t));
        }
        steps.push(format!("({}, {}, {}, {}, {})", coq_op(op), lo, hi, coq_bool(amb), e.coq()));

        // ---- direct monitor, from the property text
        // (1) the number of entries never exceeds the capacity
        let n = cache.len();
        if let Some(c) = g.capacity {
            if n > c {
                fail(&mut failures, "cache holds more entries than its capacity", format!("len {} capacity {}", n, c), i);
            }
        }
        // (2) an entry idle for longer than the ttl is never returned; a fresh one is never missed
        let definitely_expired = |l: &(u64, u64, u64, u64)| raw_lo > l.3 + ttl_ns;
        let possibly_expired = |l: &(u64, u64, u64, u64)| raw_hi > l.2 + ttl_ns;
        match op {
            Op::Get(k) | Op::GetMut(k, _) => {
                let name = if matches!(op, Op::Get(_)) { "get" } else { "get_mut" };
                match (ledger.pos(*k), val) {
                    (Some(p), Some(v)) => {
                        let l = ledger.items[p];
                        if definitely_expired(&l) {
                            saw_expired_access = true;
                            hist.add(&format!("{}:returned_stale", name));
                            fail(
                                &mut failures,
                                &format!("{} returns an entry older than ttl", name),
                                format!("key {} last used in [{}, {}] ns, call not before {} ns, ttl {} ns: idle >= {} ns", k, l.2, l.3, raw_lo, ttl_ns, raw_lo - l.3),
                                i,
                            );
                        } else {
                            hist.add(&format!("{}:hit", name));
                        }
                        if v != l.1 {
                            fail(&mut failures, "get returns a value that was not stored last", format!("key {} got {} expected {}", k, v, l.1), i);
                        }
                        let newv = match op {
                            Op::GetMut(_, Some(x)) => *x,
                            _ => v,
                        };
                        ledger.items.remove(p);
                        ledger.items.push((*k, newv, raw_lo, raw_hi));
                    }
                    (Some(p), None) => {
                        let l = ledger.items[p];
                        if !possibly_expired(&l) {
                            fail(&mut failures, "get misses an entry used within the ttl", format!("key {} last used in [{}, {}], call not after {}", k, l.2, l.3, raw_hi), i);
                        } else {
                            saw_expired_access = true;
                            hist.add(&format!("{}:none_expired", name));
                        }
                        ledger.items.remove(p);
                    }
                    (None, Some(v)) => {
                        fail(&mut failures, "get returns a value for a key that is not held", format!("key {} value {}", k, v), i);
                    }
                    (None, None) => hist.add(&format!("{}:miss", name)),
                }
            }
            Op::Peek(k) => match (ledger.pos(*k), val) {
                (Some(p), Some(v)) => {
                    let l = ledger.items[p];
                    if definitely_expired(&l) {
                        fail(&mut failures, "peek returns an entry older than ttl", format!("key {} idle >= {} ns", k, raw_lo - l.3), i);
                    }
                    if v != l.1 {
                        fail(&mut failures, "get returns a value that was not stored last", format!("peek key {} got {} expected {}", k, v, l.1), i);
                    }
                    hist.add("peek:hit");
                }
                (Some(p), None) => {
                    let l = ledger.items[p];
                    if !possibly_expired(&l) {
                        fail(&mut failures, "get misses an entry used within the ttl", format!("peek key {}", k), i);
                    } else {
                        saw_expired_access = true;
                        hist.add("peek:none_expired");
                    }
                }
                (None, Some(v)) => fail(&mut failures, "get returns a value for a key that is not held", format!("peek key {} value {}", k, v), i),
                (None, None) => hist.add("peek:miss"),
            },
            Op::Insert(k, v) => {
                if let Some(p) = ledger.pos(*k) {
                    ledger.items.remove(p);
                    hist.add("insert:existing_key");
                } else {
                    hist.add("insert:new_key");
                }
                ledger.items.push((*k, *v, raw_lo, raw_hi));
                // (3) at capacity the least recently used entry is the one dropped
                if let Some(c) = g.capacity {
                    if ledger.items.len() > c {
                        let lru = ledger.items.remove(0);
                        saw_eviction = true;
                        hist.add("insert:eviction");
                        if after.iter().any(|e| e.0 == lru.0) {
                            fail(&mut failures, "eviction kept the least recently used entry", format!("key {} still held after inserting {}", lru.0, k), i);
                        }
                    }
                }
            }
            Op::Remove(k) => {
                match (ledger.pos(*k), val) {
                    (Some(p), Some(v)) => {
                        if v != ledger.items[p].1 {
                            fail(&mut failures, "get returns a value that was not stored last", format!("remove key {}", k), i);
                        }
                        ledger.items.remove(p);
                    }
                    (None, None) => {}
                    (a, b) => fail(&mut failures, "remove disagrees with the expected contents", format!("key {} expected present={} got {:?}", k, a.is_some(), b), i),
                }
            }
            Op::Len => {}
            Op::RemoveExpired => {
                hist.add(&format!("remove_expired_values:{}", keys.len().min(3)));
                for k in &keys {
                    match ledger.pos(*k) {
                        Some(p) => {
                            let l = ledger.items[p];
                            if !possibly_expired(&l) {
                                fail(&mut failures, "remove_expired_values dropped an entry used within the ttl", format!("key {}", k), i);
                            }
                            saw_expired_access = true;
                            ledger.items.remove(p);
                        }
                        None => fail(&mut failures, "remove_expired_values reported a key that is not held", format!("key {}", k), i),
                    }
                }
            }
        }
        // the keys held are exactly the expected ones (nothing else was dropped or kept)
        let held: BTreeSet<u64> = after.iter().map(|e| e.0).collect();
        let expected: BTreeSet<u64> = ledger.items.iter().map(|e| e.0).collect();
        if held != expected {
            let sig = if matches!(op, Op::Insert(..)) {
                "eviction dropped an entry that was not the least recently used"
            } else {
                "cache contents differ from the expected map"
            };
            fail(&mut failures, sig, format!("held {:?} expected {:?}", held, expected), i);
            // follow the implementation so that one divergence is reported once
            ledger.items.retain(|e| held.contains(&e.0));
            for (k, v, t) in &after {
                if ledger.pos(*k).is_none() {
                    ledger.items.push((*k, *v, ns(base, *t), ns(base, *t)));
                }
            }
        }
        for s in e.0.iter().take(2) {
            for c in s.bytes() {
                h = (h ^ c as u64).wrapping_mul(1099511628211);
            }
        }
        h = (h ^ (kind * 7 + after.len() as u64 * 31 + (*gap).min(3) * 131)).wrapping_mul(1099511628211);
    }
    if saw_eviction {
        hist.add("case:eviction_seen");
    }
    if saw_expired_access {
        hist.add("case:expired_entry_touched");
    }
    let coq = format!("({}, ({}, {}),\n [{}])", id, ttl_ns, cap_model, steps.join(";\n  "));
    CaseResult {
        coq,
        failures,
        nontrivial: saw_eviction || saw_expired_access,
        canon: h,
        steps: steps.len(),
        ambiguous,
        hist,
        max_bracket_ns: max_bracket,
    }
}

pub fn case_rng(seed: u64, idx: u64) -> Rng {
    Rng::new(seed.wrapping_mul(0x9E3779B97F4A7C15).wrapping_add(idx.wrapping_mul(0xD1B54A32D192ED03)).wrapping_add(1501))
}

pub fn main(args: &[String]) {
    let o = parse_opts(args);
    let mut only: Option<u64> = None;
    let mut model = "fixed".to_string();
    let mut i = 0;
    while i < o.rest.len() {
        match o.rest[i].as_str() {
            "--only" => {
                only = Some(o.rest[i + 1].parse().unwrap());
                i += 1;
            }
            "--model" => {
                model = o.rest[i + 1].clone();
                i += 1;
            }
            _ => {}
        }
        i += 1;
    }
    let check = if model == "pinned" { "check_all_pinned" } else { "check_all" };
    let mut sum = Summary::new("lru");
    let mut w = CaseWriter::new(&o.out, "lru_cases", HEADER, "lcase", check, 16);
    let range: Vec<u64> = match only {
        Some(x) => vec![x],
        None => (0..o.cases).collect(),
    };
    // the cases sleep most of the time: run them on parallel threads
    let gens: Vec<(u64, GenCase)> = range
        .iter()
        .map(|idx| {
            let mut rng = case_rng(o.seed, *idx);
            (*idx, gen_case(&mut rng, o.thorough))
        })
        .collect();
    let nthreads = 24usize;
    let mut results: Vec<Option<CaseResult>> = (0..gens.len()).map(|_| None).collect();
    let next = std::sync::atomic::AtomicUsize::new(0);
    let slots = std::sync::Mutex::new(&mut results);
    std::thread::scope(|s| {
        for _ in 0..nthreads.min(gens.len().max(1)) {
            s.spawn(|| loop {
                let j = next.fetch_add(1, std::sync::atomic::Ordering::SeqCst);
                if j >= gens.len() {
                    break;
                }
                let r = run_case(gens[j].0, &gens[j].1);
                slots.lock().unwrap()[j] = Some(r);
            });
        }
    });
    let mut canon: BTreeSet<u64> = BTreeSet::new();
    let mut seen_sig: BTreeSet<String> = BTreeSet::new();
    let mut ambiguous = 0u64;
    let mut max_bracket = 0u64;
    for (j, r) in results.into_iter().enumerate() {
        let r = r.expect("case result");
        let (idx, g) = &gens[j];
        sum.evaluations += 1;
        sum.steps += r.steps as u64;
        ambiguous += r.ambiguous;
        max_bracket = max_bracket.max(r.max_bracket_ns);
        for (k, v) in &r.hist.0 {
            sum.hist.addn(k, *v);
        }
        if r.nontrivial && canon.insert(r.canon) {
            sum.distinct_nontrivial += 1;
        }
        if sum.samples.len() < 2 {
            sum.samples.push(J::obj(vec![
                ("case", J::I(*idx as i64)),
                ("seed", J::I(o.seed as i64)),
                ("ttl_ms", J::I(g.ttl_ms as i64)),
                ("capacity", g.capacity.map(|c| J::I(c as i64)).unwrap_or(J::Null)),
                ("ops", J::A(g.ops.iter().take(10).map(|(gap, op)| J::s(format!("+{}x{}ms {}", gap, GRID_MS, coq_op(op)))).collect())),
            ]));
        }
        for (sigtext, detail, step) in &r.failures {
            let sig = format!("C15:{}", sigtext);
            if seen_sig.insert(sig.clone()) || only.is_some() {
                let file = o.out.join(format!("failure_C15_{}_{}.json", idx, seen_sig.len()));
                let j = J::obj(vec![
                    ("component", J::s("lru")),
                    ("property", J::s("C15")),
                    ("seed", J::I(o.seed as i64)),
                    ("case", J::I(*idx as i64)),
                    ("thorough", J::B(o.thorough)),
                    ("step", J::I(*step as i64)),
                    ("what", J::s(sigtext.clone())),
                    ("detail", J::s(detail.clone())),
                    ("ttl_ms", J::I(g.ttl_ms as i64)),
                    ("capacity", g.capacity.map(|c| J::I(c as i64)).unwrap_or(J::Null)),
                    ("ops", J::A(g.ops.iter().take(step + 1).map(|(gap, op)| J::s(format!("sleep {} ms; {}", gap * GRID_MS, coq_op(op)))).collect())),
                ]);
                std::fs::write(&file, j.render()).unwrap();
                sum.monitor_failures.push((sig, format!("{} ({})", sigtext, detail), file.to_string_lossy().to_string()));
            }
        }
        w.push(r.coq);
    }
    w.flush();
    sum.case_files = w.files.clone();
    sum.hist.addn("time_ambiguous_steps", ambiguous);
    sum.extra.push(("x_time_ambiguous_steps".into(), J::I(ambiguous as i64)));
    sum.extra.push(("x_max_call_bracket_ns".into(), J::I(max_bracket as i64)));
    sum.extra.push(("x_model".into(), J::s(model.clone())));
    sum.rule = format!("operation sequences over a real LruTimeCache<u64,u64> in real time: ttl {} ms, operations scheduled on a {} ms grid (gaps of 0-6 units, i.e. idle times inside and outside the ttl), capacity 1-8 or unbounded, keys from capacity+1..capacity+3 candidates; a case is non-trivial if an insert at capacity evicted an entry or an entry idle for longer than the ttl was touched (get/get_mut/peek/remove_expired_values), and distinct if the hash of its operation/result/occupancy trace is new in this run", TTL_MS, GRID_MS);
    sum.write(&o.out);
    println!(
        "lru: {} cases, {} steps, {} distinct non-trivial, {} time-ambiguous steps, max bracket {} ns, {} monitor failure signatures",
        sum.evaluations,
        sum.steps,
        sum.distinct_nontrivial,
        ambiguous,
        max_bracket,
        sum.monitor_failures.len()
    );
}
