//! TALK requests (C20): generator of respond / drop / hold / shutdown orders over concurrently
//! delivered requests, driver of the real `TalkRequest` objects (built by the hook constructor or
//! by the real `Service::handle_rpc_request`, called directly or by the real event loop of a
//! service whose routing table holds records of the requesting peers), the direct monitor and the
//! Coq case files for the correspondence with Model/Talk.v.
use crate::common::*;
use crate::service::{make_idents, settle, status, Ident, Svc};
use discv5::enr::{CombinedKey, NodeId};
use discv5::verif::service::{HandlerIn, HandlerOut, Request, RequestBody, RequestId, ResponseBody, ScriptedService};
use discv5::verif::talk::{channel, HandlerEnd, Observed, TalkService, TalkSource};
use discv5::{ConfigBuilder, Discv5, Enr, Event, ListenConfig, NodeAddress, ResponseError, TalkRequest};
use std::collections::{BTreeMap, BTreeSet};
use std::net::{IpAddr, Ipv4Addr, Ipv6Addr, SocketAddr};
use tokio::sync::mpsc;

#[derive(Clone, Debug)]
pub enum Op {
    Deliver(Vec<u8>, usize),
    Respond(usize, Vec<u8>),
    Drop(usize),
    Hold,
    Shutdown,
}

/// Where the request objects come from.
#[derive(Clone, Copy, PartialEq, Eq, Debug)]
pub enum Via {
    /// the hook constructor `TalkRequest::verif_new`
    Hook,
    /// `Service::handle_rpc_request` called directly on a service with an empty routing table
    Service,
    /// the real event loop (`Service::start`) fed with `HandlerOut::Request`, on a service whose
    /// routing table holds records of (some of) the requesting peers
    Loop,
}

pub struct GenCase {
    pub via: Via,
    /// `Via::Loop`: dual-stack listen configuration (otherwise IPv4)
    pub dual: bool,
    /// `Via::Loop`: (identity, record variant) of the peers in the routing table, see `peer_records`
    pub table: Vec<(usize, usize)>,
    pub ops: Vec<Op>,
    pub kind: &'static str,
}

fn gen_via(rng: &mut Rng) -> (Via, bool, Vec<(usize, usize)>) {
    match rng.weighted(&[3, 2, 3]) {
        0 => (Via::Hook, false, vec![]),
        1 => (Via::Service, false, vec![]),
        _ => {
            let dual = rng.chance(1, 3);
            let mut table = vec![];
            for p in 0..NIDENT {
                if rng.chance(4, 5) {
                    table.push((p, rng.weighted(&[4, 2, 1, 2, 1])));
                }
            }
            (Via::Loop, dual, table)
        }
    }
}

/// identity of the sender of each entry of `addresses()` (entries 1 and 2 share the node id)
const ADDR_IDENT: [usize; 5] = [0, 1, 1, 2, 3];
const NIDENT: usize = 4;
const NVARIANT: usize = 5;

/// The addresses of `addresses()` with node ids that have keys (a record in the routing table
/// must be signed by the key its node id derives from).
fn loop_addresses(idents: &[Ident]) -> Vec<NodeAddress> {
    addresses()
        .into_iter()
        .enumerate()
        .map(|(i, a)| NodeAddress { socket_addr: a.socket_addr, node_id: idents[ADDR_IDENT[i]].node_id() })
        .collect()
}

/// The records a peer may have in the routing table, relative to the socket its TALKREQs come
/// from (`src`, the first entry of `addresses()` with its identity):
/// 0 = another IP and port, 1 = the same IP and another port, 2 = exactly `src`,
/// 3 = an IPv4 and an IPv6 endpoint, both different from `src`, 4 = no UDP endpoint at all.
fn peer_records(idents: &[Ident]) -> Vec<Vec<Enr>> {
    let addrs = addresses();
    (0..NIDENT)
        .map(|p| {
            let src = addrs[ADDR_IDENT.iter().position(|q| *q == p).unwrap()].socket_addr;
            let key = idents[p].key();
            let other4 = Ipv4Addr::new(10, 77, 0, p as u8 + 1);
            let other6 = Ipv6Addr::new(0x2001, 0xdb8, 0x77, 0, 0, 0, 0, p as u16 + 1);
            (0..NVARIANT)
                .map(|v| {
                    let mut b = Enr::builder();
                    match (v, src.ip()) {
                        (0, _) => {
                            b.ip4(other4).udp4(9100 + p as u16);
                        }
                        (1, IpAddr::V4(ip)) => {
                            b.ip4(ip).udp4(src.port() + 1000);
                        }
                        (1, IpAddr::V6(ip)) => {
                            b.ip6(ip).udp6(src.port() + 1000);
                        }
                        (2, IpAddr::V4(ip)) => {
                            b.ip4(ip).udp4(src.port());
                        }
                        (2, IpAddr::V6(ip)) => {
                            b.ip6(ip).udp6(src.port());
                        }
                        (3, _) => {
                            b.ip4(other4).udp4(9200 + p as u16).ip6(other6).udp6(9300 + p as u16);
                        }
                        _ => {
                            b.ip4(other4);
                        }
                    }
                    b.build(&key).expect("record")
                })
                .collect()
        })
        .collect()
}

fn addresses() -> Vec<NodeAddress> {
    // fixed, distinct (node id, socket) pairs; two of them share the node id, two share the socket
    let id = |b: u8| {
        let mut raw = [0u8; 32];
        raw[0] = b;
        raw[31] = b.wrapping_mul(7);
        NodeId::new(&raw)
    };
    let s = |x: &str| -> SocketAddr { x.parse().unwrap() };
    vec![
        NodeAddress { socket_addr: s("10.0.0.1:9000"), node_id: id(1) },
        NodeAddress { socket_addr: s("10.0.0.2:9000"), node_id: id(2) },
        NodeAddress { socket_addr: s("10.0.0.2:9001"), node_id: id(2) },
        NodeAddress { socket_addr: s("10.0.0.1:9000"), node_id: id(3) },
        NodeAddress { socket_addr: s("[2001:db8::5]:30303"), node_id: id(4) },
    ]
}

/// injective encoding of the id bytes as a number: big-endian of 0x01 ++ bytes
fn id_num(id: &[u8]) -> u128 {
    let mut v: u128 = 1;
    for b in id {
        v = (v << 8) | *b as u128;
    }
    v
}

fn perms(n: usize) -> Vec<Vec<usize>> {
    fn go(cur: &mut Vec<usize>, used: &mut Vec<bool>, n: usize, out: &mut Vec<Vec<usize>>) {
        if cur.len() == n {
            out.push(cur.clone());
            return;
        }
        for i in 0..n {
            if !used[i] {
                used[i] = true;
                cur.push(i);
                go(cur, used, n, out);
                cur.pop();
                used[i] = false;
            }
        }
    }
    let mut out = vec![];
    go(&mut vec![], &mut vec![false; n], n, &mut out);
    out
}

/// number of systematic cases for n concurrent requests: actions^n * n! * (n + 2) shutdown positions
fn sys_count(n: usize) -> u64 {
    let mut f = 1u64;
    for i in 1..=n as u64 {
        f *= i;
    }
    3u64.pow(n as u32) * f * (n as u64 + 2)
}

/// The idx-th systematic case: n requests are delivered, then every request gets its action
/// (respond / drop / hold) in the order of a permutation, with the shutdown before the k-th action
/// (k = n: after all actions, k = n + 1: never); at the end the application drops what it still
/// holds (as when the event loop of the application ends).
fn systematic(mut idx: u64, n: usize, rng: &mut Rng) -> GenCase {
    let k = (idx % (n as u64 + 2)) as usize;
    idx /= n as u64 + 2;
    let ps = perms(n);
    let p = &ps[(idx % ps.len() as u64) as usize];
    idx /= ps.len() as u64;
    let mut acts = vec![];
    for _ in 0..n {
        acts.push(idx % 3);
        idx /= 3;
    }
    let mut ops = vec![];
    for i in 0..n {
        ops.push(Op::Deliver(vec![i as u8 + 1, rng.below(256) as u8], rng.below(5) as usize));
    }
    for (pos, &h) in p.iter().enumerate() {
        if pos == k {
            ops.push(Op::Shutdown);
        }
        ops.push(match acts[h] {
            0 => {
                let len = rng.below(4) as usize;
                Op::Respond(h, rng.bytes(len))
            }
            1 => Op::Drop(h),
            _ => Op::Hold,
        });
    }
    if k == n {
        ops.push(Op::Shutdown);
    }
    for h in 0..n {
        if acts[h] == 2 {
            ops.push(Op::Drop(h));
        }
    }
    let (via, dual, table) = gen_via(rng);
    GenCase { via, dual, table, ops, kind: "systematic" }
}

fn random_case(rng: &mut Rng, thorough: bool) -> GenCase {
    let nops = if thorough { rng.range(10, 60) } else { rng.range(8, 30) } as usize;
    let max_live = rng.range(1, 6) as usize;
    let shutdown_at = if rng.chance(1, 2) { Some(rng.below(nops as u64) as usize) } else { None };
    let mut ops = vec![];
    let mut live: Vec<usize> = vec![];
    let mut delivered = 0usize;
    let mut ids: Vec<(Vec<u8>, usize)> = vec![];
    for i in 0..nops {
        if Some(i) == shutdown_at {
            ops.push(Op::Shutdown);
        }
        let w_deliver = if live.len() < max_live { 5 } else { 0 };
        let w_act = if live.is_empty() { 0 } else { 4 };
        match rng.weighted(&[w_deliver, w_act, w_act, 1]) {
            0 => {
                // ids of 0..8 bytes; sometimes the id and address of an earlier request again
                let (id, a) = if !ids.is_empty() && rng.chance(1, 6) {
                    rng.pick(&ids).clone()
                } else {
                    let len = *rng.pick(&[0usize, 1, 1, 2, 4, 8, 8]);
                    (rng.bytes(len), rng.below(5) as usize)
                };
                ids.push((id.clone(), a));
                ops.push(Op::Deliver(id, a));
                live.push(delivered);
                delivered += 1;
            }
            1 => {
                let j = rng.below(live.len() as u64) as usize;
                let h = live.remove(j);
                // now and then a payload around (and beyond) what fits into one datagram: the service
                // hands the application's bytes to the transport unchanged
                let len = if rng.chance(1, 16) { *rng.pick(&[1176usize, 1177, 1300]) } else { *rng.pick(&[0usize, 0, 1, 3, 8, 20]) };
                ops.push(Op::Respond(h, rng.bytes(len)));
            }
            2 => {
                let j = rng.below(live.len() as u64) as usize;
                let h = live.remove(j);
                ops.push(Op::Drop(h));
            }
            _ => ops.push(Op::Hold),
        }
    }
    // the application ends: everything still held is dropped
    for h in live {
        ops.push(Op::Drop(h));
    }
    let (via, dual, table) = gen_via(rng);
    GenCase { via, dual, table, ops, kind: "random" }
}

pub fn coq_op(op: &Op) -> String {
    match op {
        Op::Deliver(id, a) => format!("ODeliver {} {}", id_num(id), a),
        Op::Respond(h, p) => format!(
            "ORespond {} {}",
            h,
            coq_list(&p.iter().map(|b| b.to_string()).collect::<Vec<_>>())
        ),
        Op::Drop(h) => format!("ODrop {}", h),
        Op::Hold => "OHold".into(),
        Op::Shutdown => "OShutdown".into(),
    }
}

pub const HEADER: &str = "From Coq Require Import List NArith.\nImport ListNotations.\nFrom Discv5V Require Import Model.Talk Run.Common Run.TalkRun.\nOpen Scope N_scope.";

pub struct CaseResult {
    pub coq: String,
    pub failures: Vec<(String, usize)>,
    pub nontrivial: bool,
    pub canon: u64,
    pub steps: usize,
}

enum Source {
    Direct(TalkSource),
    Service(Box<TalkService>),
    Loop(Box<LoopService>),
}

/// The scripted service (real `Service::start` loop on the harness' runtime) taken apart: the
/// harness keeps the handler's sending end and the event stream; the handler's receiving end is
/// the `End::Raw` of the case.
struct LoopService {
    _discv5: Discv5,
    to_service: mpsc::Sender<HandlerOut>,
    events: mpsc::Receiver<Event>,
    task: tokio::task::JoinHandle<()>,
}

impl LoopService {
    /// Reports a TALKREQ as the handler does and returns the request object that the service's
    /// event loop (`handle_rpc_request`) delivers on the event stream.
    fn deliver(&mut self, rt: &tokio::runtime::Runtime, from: NodeAddress, id: &[u8], protocol: Vec<u8>, body: Vec<u8>) -> Option<TalkRequest> {
        let req = Request { id: RequestId(id.to_vec()), body: RequestBody::Talk { protocol, request: body } };
        if self.to_service.try_send(HandlerOut::Request(from, Box::new(req))).is_err() {
            return None;
        }
        rt.block_on(settle());
        let mut found = None;
        while let Ok(ev) = self.events.try_recv() {
            if let Event::TalkRequest(r) = ev {
                found = Some(r);
            }
        }
        found
    }
}

/// The handler's end of the service-to-handler channel.
enum End {
    Hook(HandlerEnd),
    Raw(mpsc::UnboundedReceiver<HandlerIn>),
}

impl End {
    fn drain(&mut self) -> Vec<Observed> {
        match self {
            End::Hook(h) => h.drain(),
            End::Raw(rx) => {
                let mut out = vec![];
                while let Ok(m) = rx.try_recv() {
                    out.push(match m {
                        HandlerIn::Response(node_address, response) => {
                            let response = *response;
                            match response.body {
                                ResponseBody::Talk { response: payload } => Observed::TalkResponse { node_address, id: response.id.0.clone(), payload },
                                other => Observed::Other(format!("response {}", other)),
                            }
                        }
                        HandlerIn::Request(..) => Observed::Other("request".into()),
                        _ => Observed::Other("other".into()),
                    });
                }
                out
            }
        }
    }
}

/// What a run needs besides the case: addresses, identities, records, the runtime.
pub struct Ctx {
    addrs: Vec<NodeAddress>,
    loop_addrs: Vec<NodeAddress>,
    records: Vec<Vec<Enr>>,
    local: Local,
    rt: tokio::runtime::Runtime,
}

struct Local {
    enr: Enr,
    key_bytes: Vec<u8>,
}

fn make_local() -> Local {
    let mut kb = vec![7u8; 32];
    let key = CombinedKey::secp256k1_from_bytes(&mut kb.clone()).unwrap();
    let enr = Enr::builder().ip4("127.0.0.1".parse().unwrap()).udp4(9000).build(&key).unwrap();
    kb.truncate(32);
    Local { enr, key_bytes: kb }
}

/// Runs one case on the implementation; produces the Coq case and the monitor verdicts.
/// The monitor is written from the property text: every request that the application answers or
/// drops while the channel is up produces exactly one TALKRESP (same id, same node address, the
/// given payload / the empty payload) at that moment and nothing later; holding produces nothing;
/// after the shutdown `respond` is `Err(ChannelClosed)`, dropping is silent, nothing panics.
fn run_case(id: u64, g: &GenCase, ctx: &Ctx, hist: &mut Hist) -> CaseResult {
    let local = &ctx.local;
    let addrs: &[NodeAddress] = if g.via == Via::Loop { &ctx.loop_addrs } else { &ctx.addrs };
    // per address: what the routing table says about the sender (Via::Loop)
    let mut advertised: Vec<&'static str> = vec!["unknown_peer"; addrs.len()];
    let (mut source, end): (Source, End) = match g.via {
        Via::Service => {
            let key = CombinedKey::secp256k1_from_bytes(&mut local.key_bytes.clone()).unwrap();
            let (s, e) = TalkService::new(local.enr.clone(), key);
            (Source::Service(Box::new(s)), End::Hook(e))
        }
        Via::Hook => {
            let (s, e) = channel();
            (Source::Direct(s), End::Hook(e))
        }
        Via::Loop => {
            let key = CombinedKey::secp256k1_from_bytes(&mut local.key_bytes.clone()).unwrap();
            let listen = if g.dual {
                ListenConfig::DualStack { ipv4: Ipv4Addr::LOCALHOST, ipv4_port: 9000, ipv6: Ipv6Addr::LOCALHOST, ipv6_port: 9001 }
            } else {
                ListenConfig::Ipv4 { ip: Ipv4Addr::LOCALHOST, port: 9000 }
            };
            let config = ConfigBuilder::new(listen).build();
            let Svc { s, events } = ctx.rt.block_on(Svc::new(local.enr.clone(), key, config));
            let ScriptedService { discv5, kbuckets, to_service, from_service, task, .. } = s;
            for (p, v) in &g.table {
                let enr = ctx.records[*p][*v].clone();
                let r = kbuckets.write().insert_or_update(&enr.node_id().into(), enr.clone(), status(true, false));
                if !matches!(r, discv5::kbucket::InsertResult::Inserted) {
                    hist.add("loop:record_not_inserted");
                    continue;
                }
                for (i, a) in addrs.iter().enumerate() {
                    if ADDR_IDENT[i] == *p {
                        let ends: Vec<SocketAddr> = enr.udp4_socket().map(SocketAddr::V4).into_iter().chain(enr.udp6_socket().map(SocketAddr::V6)).collect();
                        advertised[i] = if ends.is_empty() {
                            "known_peer_whose_record_has_no_endpoint"
                        } else if ends.contains(&a.socket_addr) {
                            "known_peer_whose_record_advertises_the_source_endpoint"
                        } else {
                            "known_peer_whose_record_advertises_another_endpoint"
                        };
                    }
                }
            }
            (Source::Loop(Box::new(LoopService { _discv5: discv5, to_service, events, task })), End::Raw(from_service))
        }
    };
    let mut end = Some(end);
    let mut objs: Vec<Option<TalkRequest>> = vec![];
    let mut meta: Vec<(Vec<u8>, usize)> = vec![];
    let mut steps = vec![];
    let mut failures: Vec<(String, usize)> = vec![];
    // monitor ledger: (id, address) -> number of responses that must have arrived / have arrived
    let mut expected: BTreeMap<(Vec<u8>, usize), u64> = BTreeMap::new();
    let mut seen: BTreeMap<(Vec<u8>, usize), u64> = BTreeMap::new();
    let mut max_live = 0usize;
    let mut live_at_shutdown = 0usize;
    let mut h: u64 = 1469598103934665603;
    let addr_index = |na: &NodeAddress| addrs.iter().position(|a| a == na).unwrap_or(999);
    for (i, op) in g.ops.iter().enumerate() {
        let running = end.is_some();
        let mut e = Enc::new();
        // what the monitor expects to arrive during this step
        let mut want: Option<(Vec<u8>, usize, Vec<u8>)> = None;
        match op {
            Op::Deliver(rid, a) => {
                let req = match &mut source {
                    Source::Direct(s) => Some(s.talk_request(rid, addrs[*a].clone(), b"proto".to_vec(), vec![1, 2, 3])),
                    Source::Service(s) => s.deliver(addrs[*a].clone(), rid, b"proto".to_vec(), vec![1, 2, 3]),
                    Source::Loop(s) => {
                        hist.add(&format!("deliver:from_{}", advertised[*a]));
                        s.deliver(&ctx.rt, addrs[*a].clone(), rid, b"proto".to_vec(), vec![1, 2, 3])
                    }
                };
                match req {
                    Some(r) => {
                        if r.id().0 != *rid || r.node_id() != &addrs[*a].node_id || r.protocol() != b"proto" || r.body() != [1, 2, 3] {
                            failures.push(("the delivered request object does not carry the request's id / sender / protocol / body".into(), i));
                        }
                        objs.push(Some(r));
                    }
                    None => {
                        failures.push(("a TALKREQ handed to the service was not delivered to the application".into(), i));
                        objs.push(None);
                    }
                }
                meta.push((rid.clone(), *a));
                e.n(3);
                hist.add("op:deliver");
            }
            Op::Respond(hd, payload) => match objs[*hd].take() {
                Some(r) => {
                    let p = payload.clone();
                    let res = catch(std::panic::AssertUnwindSafe(move || r.respond(p)));
                    match res {
                        Ok(Ok(())) => {
                            e.n(0);
                            if !running {
                                failures.push(("respond after shutdown returned Ok".into(), i));
                            }
                            hist.add("respond:ok");
                        }
                        Ok(Err(ResponseError::ChannelClosed)) => {
                            e.n(1);
                            if running {
                                failures.push(("respond on a running node returned an error".into(), i));
                            }
                            hist.add("respond:channel_closed");
                        }
                        Ok(Err(_)) => {
                            e.n(1);
                            failures.push(("respond returned an unexpected error".into(), i));
                        }
                        Err(m) => {
                            e.n(2);
                            failures.push((format!("respond panicked: {}", m), i));
                        }
                    }
                    if running {
                        want = Some((meta[*hd].0.clone(), meta[*hd].1, payload.clone()));
                    }
                }
                None => {
                    e.n(4);
                }
            },
            Op::Drop(hd) => match objs[*hd].take() {
                Some(r) => {
                    // circumstances the statement does not depend on: the application drops the
                    // request in the ordinary way, while its task unwinds from a panic of its own, or
                    // after the sender has been put on the ban list
                    let mode = (id.wrapping_mul(31).wrapping_add(i as u64 * 7)) % 4;
                    if mode == 2 {
                        let mut l = discv5::verif::filter::permit_ban_snapshot();
                        l.ban_nodes.insert(addrs[meta[*hd].1].node_id, None);
                        l.ban_ips.insert(addrs[meta[*hd].1].socket_addr.ip(), None);
                        discv5::verif::filter::permit_ban_reset(l);
                        hist.add("drop:sender_banned");
                    }
                    if mode == 1 {
                        hist.add("drop:while_unwinding");
                        // (a panic inside Drop during unwinding aborts the process: the harness dies)
                        let _ = catch(std::panic::AssertUnwindSafe(move || {
                            let _held = r;
                            std::panic::resume_unwind(Box::new("application panic"));
                        }));
                        e.n(3);
                    } else {
                        let res = catch(std::panic::AssertUnwindSafe(move || drop(r)));
                        if let Err(m) = res {
                            e.n(2);
                            failures.push((format!("dropping a request panicked: {}", m), i));
                        } else {
                            e.n(3);
                        }
                    }
                    if mode == 2 {
                        discv5::verif::filter::permit_ban_reset(discv5::PermitBanList::default());
                    }
                    if running {
                        want = Some((meta[*hd].0.clone(), meta[*hd].1, vec![]));
                        hist.add("drop:running");
                    } else {
                        hist.add("drop:after_shutdown");
                    }
                }
                None => {
                    e.n(4);
                }
            },
            Op::Hold => {
                e.n(3);
                hist.add("op:hold");
            }
            Op::Shutdown => {
                live_at_shutdown = objs.iter().filter(|o| o.is_some()).count();
                // nothing may be left unobserved in the channel
                if let Some(mut x) = end.take() {
                    let rest = x.drain();
                    if !rest.is_empty() {
                        failures.push(("a response arrived although no operation was performed".into(), i));
                    }
                }
                e.n(3);
                hist.add("op:shutdown");
            }
        }
        // arrivals
        let arrived = match end.as_mut() {
            Some(x) => x.drain(),
            None => vec![],
        };
        e.n(arrived.len() as u64);
        let mut got: Vec<(Vec<u8>, usize, Vec<u8>)> = vec![];
        let mut dest: Vec<NodeAddress> = vec![];
        for m in &arrived {
            match m {
                Observed::TalkResponse { node_address, id, payload } => {
                    let a = addr_index(node_address);
                    dest.push(node_address.clone());
                    e.0.push(id_num(id).to_string());
                    e.n(a as u64).n(payload.len() as u64);
                    for b in payload {
                        e.n(*b as u64);
                    }
                    *seen.entry((id.clone(), a)).or_insert(0) += 1;
                    got.push((id.clone(), a, payload.clone()));
                }
                Observed::Other(s) => {
                    e.n(0).n(998).n(0);
                    failures.push((format!("a message that is not a TALKRESP was sent to the handler: {}", s), i));
                }
            }
        }
        match &want {
            Some(w) => {
                *expected.entry((w.0.clone(), w.1)).or_insert(0) += 1;
                if got.is_empty() {
                    failures.push((
                        if w.2.is_empty() && matches!(op, Op::Drop(_)) {
                            "a request dropped on a running node got no (empty) response".to_string()
                        } else {
                            "a request answered on a running node produced no response".to_string()
                        },
                        i,
                    ));
                } else if got.len() > 1 {
                    failures.push(("a request produced more than one response".into(), i));
                } else if dest[0] != addrs[w.1] {
                    // the destination of the TALKRESP against the node address the TALKREQ was delivered from
                    failures.push((
                        if dest[0].node_id != addrs[w.1].node_id {
                            "the response goes to another node id than the one the TALKREQ came from".to_string()
                        } else {
                            format!(
                                "the response is addressed to {} although the TALKREQ came from {} (same node id; routing table: {})",
                                dest[0].socket_addr, addrs[w.1].socket_addr, advertised[w.1]
                            )
                        },
                        i,
                    ));
                } else if got[0].0 != w.0 || got[0].1 != w.1 {
                    failures.push(("the response carries another request id or goes to another node address".into(), i));
                } else if got[0].2 != w.2 {
                    failures.push(("the response payload is not the application's payload (empty for a dropped request)".into(), i));
                }
            }
            None => {
                if !got.is_empty() {
                    failures.push(("a response was sent although no request was answered or dropped".into(), i));
                }
            }
        }
        let live_now = objs.iter().filter(|o| o.is_some()).count();
        max_live = max_live.max(live_now);
        for s in e.0.iter().take(2) {
            for c in s.bytes() {
                h = (h ^ c as u64).wrapping_mul(1099511628211);
            }
        }
        h = (h ^ (live_now as u64 * 131 + running as u64)).wrapping_mul(1099511628211);
        steps.push(format!("({}, {})", coq_op(op), e.coq()));
        if !failures.is_empty() {
            break;
        }
    }
    // end of the case: per request key, the number of responses ever sent equals the number of
    // requests answered or dropped while running (never a second response)
    if failures.is_empty() {
        if let Some(x) = end.as_mut() {
            if !x.drain().is_empty() {
                failures.push(("a response arrived after the last operation".into(), g.ops.len()));
            }
        }
        let keys: BTreeSet<_> = expected.keys().chain(seen.keys()).cloned().collect();
        for k in keys {
            let ex = expected.get(&k).cloned().unwrap_or(0);
            let se = seen.get(&k).cloned().unwrap_or(0);
            if ex != se {
                failures.push((format!("{} responses for a request key that was answered {} times", se, ex), g.ops.len()));
            }
        }
    }
    drop(objs);
    if let Source::Loop(s) = &source {
        s.task.abort();
    }
    if max_live >= 2 {
        hist.add("case:two_or_more_concurrent");
    }
    if live_at_shutdown > 0 {
        hist.add("case:shutdown_with_live_requests");
    }
    hist.add(match g.via {
        Via::Service => "case:via_service_handle_rpc_request",
        Via::Hook => "case:via_hook_constructor",
        Via::Loop => "case:via_service_event_loop_with_routing_table",
    });
    if g.via == Via::Loop && g.dual {
        hist.add("case:loop_dual_stack");
    }
    hist.add(&format!("case:{}", g.kind));
    let coq = format!("({}, [{}])", id, steps.join(";\n  "));
    CaseResult { coq, failures, nontrivial: max_live >= 2 || live_at_shutdown > 0, canon: h, steps: steps.len() }
}

/// Monitor-only run: n requests are answered / dropped from n threads at the same moment; the
/// arrival order is not determined, the per-request "exactly one" is.
fn threaded_case(rng: &mut Rng, addrs: &[NodeAddress]) -> Option<String> {
    let n = rng.range(2, 6) as usize;
    let (src, mut end) = channel();
    let barrier = std::sync::Arc::new(std::sync::Barrier::new(n));
    let mut handles = vec![];
    let mut want: BTreeMap<(Vec<u8>, usize), Vec<Vec<u8>>> = BTreeMap::new();
    for i in 0..n {
        let a = rng.below(5) as usize;
        let rid = vec![i as u8, rng.below(256) as u8];
        let r = src.talk_request(&rid, addrs[a].clone(), vec![], vec![]);
        let act = rng.below(3);
        let len = rng.below(4) as usize;
        let payload = rng.bytes(len);
        if act < 2 {
            want.entry((rid.clone(), a)).or_default().push(if act == 0 { payload.clone() } else { vec![] });
        }
        let b = barrier.clone();
        handles.push(std::thread::spawn(move || {
            b.wait();
            match act {
                0 => r.respond(payload).is_ok(),
                1 => {
                    drop(r);
                    true
                }
                _ => {
                    std::mem::forget(r); // held for ever
                    true
                }
            }
        }));
    }
    for hnd in handles {
        match hnd.join() {
            Ok(true) => {}
            Ok(false) => return Some("respond failed on a running node (threads)".into()),
            Err(_) => return Some("panic in a thread answering a request".into()),
        }
    }
    let mut got: BTreeMap<(Vec<u8>, usize), Vec<Vec<u8>>> = BTreeMap::new();
    for m in end.drain() {
        if let Observed::TalkResponse { node_address, id, payload } = m {
            let a = addrs.iter().position(|x| *x == node_address).unwrap_or(999);
            got.entry((id, a)).or_default().push(payload);
        } else {
            return Some("a message that is not a TALKRESP was sent to the handler (threads)".into());
        }
    }
    if got != want {
        return Some("requests answered from several threads: responses are not exactly one per answered request".into());
    }
    None
}

pub fn case_rng(seed: u64, idx: u64) -> Rng {
    Rng::new(seed.wrapping_mul(0x9E3779B97F4A7C15).wrapping_add(idx.wrapping_mul(0xD1B54A32D192ED03)).wrapping_add(20))
}

/// `harness talk --seed S --cases N --out DIR [--only I]`
pub fn main(args: &[String]) {
    let o = parse_opts(args);
    let mut only: Option<u64> = None;
    let mut i = 0;
    while i < o.rest.len() {
        if o.rest[i] == "--only" {
            only = Some(o.rest[i + 1].parse().unwrap());
            i += 1;
        }
        i += 1;
    }
    // the service constructor creates tokio objects; a runtime context is entered for the run
    let rt = tokio::runtime::Builder::new_current_thread().enable_all().build().unwrap();
    let idents = make_idents(NIDENT);
    let ctx = Ctx { addrs: addresses(), loop_addrs: loop_addresses(&idents), records: peer_records(&idents), local: make_local(), rt };
    let _guard = ctx.rt.enter();
    let addrs = ctx.addrs.clone();
    let max_n = if o.thorough { 4 } else { 3 };
    let sys_total: u64 = (1..=max_n).map(sys_count).sum();
    let mut sum = Summary::new("talk");
    let mut w = CaseWriter::new(&o.out, "talk_cases", HEADER, "tcase", "check_all", 400);
    let mut canon: BTreeSet<u64> = BTreeSet::new();
    let mut seen_sig: BTreeSet<String> = BTreeSet::new();
    let range: Vec<u64> = match only {
        Some(x) => vec![x],
        None => (0..o.cases).collect(),
    };
    for idx in range {
        let mut rng = case_rng(o.seed, idx);
        let g = if idx < sys_total {
            let mut j = idx;
            let mut n = 1;
            while j >= sys_count(n) {
                j -= sys_count(n);
                n += 1;
            }
            systematic(j, n, &mut rng)
        } else {
            random_case(&mut rng, o.thorough)
        };
        let r = run_case(idx, &g, &ctx, &mut sum.hist);
        sum.evaluations += 1;
        sum.steps += r.steps as u64;
        if r.nontrivial && canon.insert(r.canon) {
            sum.distinct_nontrivial += 1;
        }
        if sum.samples.len() < 2 && (idx >= 100 || only.is_some()) {
            sum.samples.push(J::obj(vec![
                ("case", J::I(idx as i64)),
                ("seed", J::I(o.seed as i64)),
                ("via", J::s(format!("{:?}", g.via))),
                ("routing_table", J::s(format!("{:?}", g.table))),
                ("ops", J::A(g.ops.iter().map(|op| J::s(coq_op(op))).collect())),
            ]));
        }
        let mut fails = r.failures.clone();
        // the threaded monitor run rides on every 8th case
        if idx % 8 == 0 {
            sum.hist.add("threaded_monitor_runs");
            if let Some(m) = threaded_case(&mut rng, &addrs) {
                fails.push((m, 0));
            }
        }
        for (desc, step) in &fails {
            let sig: String = desc.chars().map(|c| if c.is_ascii_digit() { '#' } else { c }).collect();
            let sig = { let mut t = sig; while t.contains("##") { t = t.replace("##", "#"); } t };
            let sig = format!("C20:{}", sig);
            if seen_sig.insert(sig.clone()) || only.is_some() {
                let file = o.out.join(format!("failure_C20_{}.json", idx));
                let j = J::obj(vec![
                    ("component", J::s("talk")),
                    ("property", J::s("C20")),
                    ("seed", J::I(o.seed as i64)),
                    ("case", J::I(idx as i64)),
                    ("thorough", J::B(o.thorough)),
                    ("step", J::I(*step as i64)),
                    ("what", J::s(desc.clone())),
                    ("via", J::s(format!("{:?}", g.via))),
                    ("dual_stack", J::B(g.dual)),
                    ("routing_table_identity_and_record_variant", J::s(format!("{:?}", g.table))),
                    ("ops", J::A(g.ops.iter().take(step + 1).map(|op| J::s(coq_op(op))).collect())),
                ]);
                std::fs::write(&file, j.render()).unwrap();
                sum.monitor_failures.push((sig, desc.clone(), file.to_string_lossy().to_string()));
            }
        }
        w.push(r.coq);
    }
    w.flush();
    sum.case_files = w.files.clone();
    sum.rule = format!(
        "respond/drop/hold/shutdown orders over real TalkRequest objects sharing one service-to-handler channel whose receiving end the harness holds: first the {} systematic cases (1..{} concurrent requests x every action vector x every order x every shutdown position, held requests dropped at the end), then random cases with up to 6 concurrent requests, interleaved deliveries, repeated (id, address) pairs, ids of 0..8 bytes; 3/8 of the cases obtain the objects from the hook constructor, 2/8 from the real Service::handle_rpc_request (called directly, empty routing table) + event stream, 3/8 from the real service event loop (Service::start fed with HandlerOut::Request, IPv4 or dual-stack) whose routing table holds, for each of the 4 sender identities with probability 4/5, a record advertising another IP and port / the same IP and another port / exactly the source endpoint / an IPv4 and an IPv6 endpoint / no endpoint (4:2:1:2:1) - the monitor compares the destination node address of every response with the node address the request was delivered from; every 8th case also runs 2..6 requests answered from separate threads (monitor only); non-trivial = two or more requests held at the same time or a shutdown with held requests; distinct = new result/occupancy trace",
        sys_total, max_n
    );
    sum.write(&o.out);
    println!(
        "talk: {} cases, {} steps, {} distinct non-trivial, {} monitor failure signatures",
        sum.evaluations,
        sum.steps,
        sum.distinct_nontrivial,
        sum.monitor_failures.len()
    );
}
