//! External address by clear majority (C17): generators of vote scripts, drivers of the real
//! `IpVote` (through `IpVoteFacade`, real clock, every call bracketed by measured instants) and of
//! the real `Service` PONG handling (through `PongService`), the direct monitors, the exhaustive
//! f64-threshold table and the Coq case files for the correspondence with Model/IpVote.v.
//!
//! Part `loop`: the same PONG handling inside the real main loop (`Service::start`, scripted
//! service on the paused clock): the service sends its own PINGs (session established, ping
//! interval, record changed), the harness answers them; auto-NAT windows run out in the loop's
//! timer arm; the application subscribes to the event stream again and again (monitor only).
//!
//! `harness vote --part ipvote|service|loop|thr --seed S --cases N --out DIR [--only I]`
use crate::common::*;
use discv5::enr::{CombinedKey, NodeId};
use discv5::verif::vote::{clear_majority_threshold, IpVoteFacade, PongService};
use discv5::Enr;
use std::collections::{BTreeMap, BTreeSet};
use std::net::{Ipv4Addr, Ipv6Addr, SocketAddr, SocketAddrV4, SocketAddrV6};
use std::time::{Duration, Instant};

// ------------------------------------------------------------------------------------------------
// interned ids and addresses

fn node_id(i: u64) -> NodeId {
    let mut raw = [0u8; 32];
    raw[0] = 0xA5;
    raw[24..32].copy_from_slice(&i.to_be_bytes());
    NodeId::new(&raw)
}
/// index of the unspecified address of a family (0.0.0.0 / ::) in the address pools: a PONG may report it like any
/// other address (a peer behind some middleboxes, a peer that lies), and it is a vote like any other
const UNSPEC: u64 = 49;
fn addr4(i: u64) -> SocketAddrV4 {
    if i == UNSPEC {
        return SocketAddrV4::new(Ipv4Addr::UNSPECIFIED, 30000 + i as u16);
    }
    SocketAddrV4::new(Ipv4Addr::new(192, 0, 2, i as u8 + 1), 30000 + i as u16)
}
fn addr6(j: u64) -> SocketAddrV6 {
    if j == UNSPEC {
        return SocketAddrV6::new(Ipv6Addr::UNSPECIFIED, 31000 + j as u16, 0, 0);
    }
    SocketAddrV6::new(Ipv6Addr::new(0x2001, 0xdb8, 0, 0, 0, 0, 0, j as u16 + 1), 31000 + j as u16, 0, 0)
}
/// the unspecified address of a family as a reported socket
fn unspec(v6: bool) -> Sock {
    (v6, if v6 { 101 + UNSPEC } else { 1 + UNSPEC })
}
/// (is_v6, code): code i+1 for addr4(i), 101+j for addr6(j)
type Sock = (bool, u64);
fn sock_addr(s: Sock) -> SocketAddr {
    if s.0 {
        SocketAddr::V6(addr6(s.1 - 101))
    } else {
        SocketAddr::V4(addr4(s.1 - 1))
    }
}
fn code4(a: &SocketAddrV4) -> u64 {
    (0..32).chain(UNSPEC..UNSPEC + 1).find(|i| addr4(*i) == *a).map(|i| i + 1).unwrap_or(999)
}
fn code6(a: &SocketAddrV6) -> u64 {
    (0..32).chain(UNSPEC..UNSPEC + 1).find(|j| addr6(*j) == *a).map(|j| j + 101).unwrap_or(999)
}
fn coq_sock(s: Sock) -> String {
    format!("({}, {})", coq_bool(s.0), s.1)
}
fn enc_opt(e: &mut Enc, o: Option<u64>) {
    match o {
        Some(x) => {
            e.n(1).n(x);
        }
        None => {
            e.n(0);
        }
    }
}

// ------------------------------------------------------------------------------------------------
// the monitor's own ledger of votes (written from the property text, not from the model)

#[derive(Clone)]
struct LVote {
    addr: u64,
    e_lo: u64,
    e_hi: u64,
    /// the implementation certainly recorded this vote (at the service level a PONG is only
    /// counted if the voter is eligible, which depends on state the monitor does not track)
    surely_counted: bool,
}
#[derive(Default)]
struct Ledger {
    /// per address family: node -> its votes, oldest first
    fam: [BTreeMap<u64, Vec<LVote>>; 2],
    ever: BTreeMap<Sock, BTreeSet<u64>>,
    /// expiry brackets of every vote ever cast
    all: Vec<(u64, u64)>,
}
impl Ledger {
    fn insert(&mut self, node: u64, s: Sock, tb: u64, ta: u64, dur: u64, surely_counted: bool) {
        self.fam[s.0 as usize].entry(node).or_default().push(LVote { addr: s.1, e_lo: tb + dur, e_hi: ta + dur, surely_counted });
        self.ever.entry(s).or_default().insert(node);
        self.all.push((tb + dur, ta + dur));
    }
    /// some vote may or may not have expired between qb and qa
    fn ambiguous(&self, qb: u64, qa: u64) -> bool {
        self.all.iter().any(|(e_lo, e_hi)| *e_lo <= qa && *e_hi > qb)
    }
    /// upper bound of the number of peers whose most recent counted vote is `s` and unexpired:
    /// a vote for `s` that may be unexpired and that no later, certainly counted vote for another
    /// address has replaced
    fn possible(&self, s: Sock, qb: u64) -> usize {
        self.fam[s.0 as usize]
            .values()
            .filter(|votes| {
                votes.iter().enumerate().any(|(k, v)| {
                    v.addr == s.1 && v.e_hi > qb && !votes[k + 1..].iter().any(|w| w.addr != s.1 && w.surely_counted)
                })
            })
            .count()
    }
    /// lower bound per rival address: peers that certainly have an unexpired vote for it on record
    fn definite_rivals(&self, s: Sock, qa: u64) -> BTreeMap<u64, usize> {
        let mut m = BTreeMap::new();
        for votes in self.fam[s.0 as usize].values() {
            for (k, v) in votes.iter().enumerate() {
                if v.addr != s.1 && v.surely_counted && v.e_lo > qa && votes[k + 1..].iter().all(|w| w.addr == v.addr) {
                    *m.entry(v.addr).or_insert(0) += 1;
                    break;
                }
            }
        }
        m
    }
    /// The monitor's own count for one address family at a moment in [qb, qa], when the votes it
    /// sent determine it: per voter the most recent vote, if it is unexpired. `None` if some
    /// voter's most recent PONG may not have been counted (the voter was not certainly eligible)
    /// while a vote of that voter may still be alive, or if a vote may or may not have run out.
    fn exact_counts(&self, v6: bool, qb: u64, qa: u64) -> Option<BTreeMap<u64, usize>> {
        let mut m = BTreeMap::new();
        for votes in self.fam[v6 as usize].values() {
            let last = votes.last()?;
            if votes.iter().all(|v| v.e_hi <= qb) {
                continue; // everything this voter said has run out
            }
            if !last.surely_counted {
                return None;
            }
            if last.e_lo > qa {
                *m.entry(last.addr).or_insert(0) += 1;
            } else if last.e_hi > qb {
                return None;
            }
        }
        Some(m)
    }
    /// The property text on the monitor's own count: the adopted address must be the most recent
    /// unexpired vote of at least `min` voters and lead every rival by the margin.
    fn check_against_own_majority(&self, s: Sock, min: usize, qb: u64, qa: u64) -> Option<String> {
        let counts = self.exact_counts(s.0, qb, qa)?;
        let mine = counts.get(&s.1).cloned().unwrap_or(0);
        let rival = counts.iter().filter(|(a, _)| **a != s.1).max_by_key(|(_, c)| **c).map(|(a, c)| (*a, *c));
        let bad = mine < min || matches!(rival, Some((_, c)) if 10 * c >= 7 * mine);
        if !bad {
            return None;
        }
        // the address the votes do support, if any
        let majority = counts.iter().find(|(a, c)| **c >= min && counts.iter().all(|(b, d)| b == *a || 10 * *d < 7 * **c)).map(|(a, _)| *a);
        let tally: Vec<String> = counts.iter().map(|(a, c)| format!("address {} <- {} voters", a, c)).collect();
        Some(match majority {
            Some(w) => format!(
                "the record moved to address {} ({} current votes) while the clear majority of the most recent unexpired votes is address {} [{}]",
                s.1, mine, w, tally.join(", ")
            ),
            None => format!(
                "the record moved to address {} ({} current votes) while the most recent unexpired votes give no address the minimum and the clear-majority margin [{}]",
                s.1, mine, tally.join(", ")
            ),
        })
    }
    /// The property text for an address that wins / is adopted at a moment in [qb, qa].
    fn check_winner(&self, s: Sock, min: usize, qb: u64, qa: u64) -> Option<String> {
        let ever = self.ever.get(&s).map(|x| x.len()).unwrap_or(0);
        if ever < min {
            return Some(format!("an address with {} distinct voters ever (< minimum {}) won", ever, min));
        }
        let p = self.possible(s, qb);
        if p < min {
            return Some(format!("an address that is the latest unexpired vote of only {} peers (< minimum {}) won", p, min));
        }
        for (b, c) in self.definite_rivals(s, qa) {
            // "leads every rival by the clear-majority margin" (30 %): a rival with 70 % or more of
            // the leader's votes is not led by the margin (p is an upper bound of the leader's
            // count and c a lower bound of the rival's, so this never over-reports)
            if 10 * c >= 7 * p {
                return Some(format!("an address with {} votes won although rival {} has {} votes (within the clear-majority margin)", p, b, c));
            }
        }
        None
    }
}

// ------------------------------------------------------------------------------------------------
// part 1: the IpVote facade

pub const HEADER: &str = "From Coq Require Import List NArith.\nImport ListNotations.\nFrom Discv5V Require Import Model.IpVote Run.Common Run.IpVoteRun.\nOpen Scope N_scope.";

#[derive(Clone, Debug)]
enum VOp {
    Insert(u64, Sock),
    Majority,
    HasMin,
    Sleep(u64),
}

struct VCase {
    min: usize,
    dur_ns: u64,
    ops: Vec<VOp>,
    kind: &'static str,
}

const NPROBE_SMALL: u64 = 64; // leading counts 2..=65, each probed at the boundary

fn gen_probe(idx: u64, rng: &mut Rng) -> VCase {
    // the first two of the large probes are crowds: more than a thousand voters with a live vote at the same time
    // (a busy node, a long vote duration) - every one of them counts, the first like the last
    let m = if idx < NPROBE_SMALL { idx + 2 } else if idx < NPROBE_SMALL + 2 { rng.range(610, 780) } else { rng.range(66, 400) };
    let thr = clear_majority_threshold(m as usize) as u64;
    let mut ops = vec![];
    let v6 = rng.chance(1, 4);
    let a: Sock = if v6 { (true, 101) } else { (false, 1) };
    let b: Sock = if v6 { (true, 102) } else { (false, 2) };
    let mut n = 0;
    for _ in 0..m {
        ops.push(VOp::Insert(n, a));
        n += 1;
    }
    // the rival one below the code's threshold: a clear majority; then at the threshold: none
    for _ in 0..thr.saturating_sub(1) {
        ops.push(VOp::Insert(n, b));
        n += 1;
    }
    ops.push(VOp::Majority);
    ops.push(VOp::Insert(n, b));
    ops.push(VOp::Majority);
    // a voter of the leader changes its mind
    ops.push(VOp::Insert(0, b));
    ops.push(VOp::Majority);
    VCase { min: 2, dur_ns: 3_600_000_000_000, ops, kind: if m >= 600 { "probe_crowd" } else { "probe" } }
}

fn gen_script(rng: &mut Rng, thorough: bool) -> VCase {
    let min = rng.range(2, 6) as usize;
    let dur_ns = 30_000_000u64;
    let nvoters = rng.range(min as u64 + 1, 14);
    let n4 = rng.range(2, 4);
    let n6 = if rng.chance(1, 2) { rng.range(1, 3) } else { 0 };
    let nsteps = if thorough { rng.range(30, 90) } else { rng.range(20, 55) };
    let mut ops = vec![];
    let mut fresh_voter = 0u64;
    for _ in 0..nsteps {
        match rng.weighted(&[70, 6, 10, 14]) {
            0 => {
                // early on, new voters one after the other so that majorities form
                let node = if fresh_voter < nvoters && rng.chance(3, 5) {
                    fresh_voter += 1;
                    fresh_voter - 1
                } else {
                    rng.below(nvoters)
                };
                let v6 = n6 > 0 && rng.chance(3, 10);
                let k = if v6 { n6 } else { n4 };
                let which = match rng.weighted(&[6, 3, 1]) {
                    0 => 0,
                    1 => 1 % k,
                    _ => rng.below(k),
                };
                let s: Sock = if v6 { (true, 101 + which) } else { (false, 1 + which) };
                let s = if rng.chance(1, 12) { unspec(v6) } else { s };
                ops.push(VOp::Insert(node, s));
                ops.push(VOp::Majority);
            }
            1 => ops.push(VOp::Majority),
            2 => ops.push(VOp::HasMin),
            _ => ops.push(VOp::Sleep(if rng.chance(1, 2) { dur_ns / 3 } else { dur_ns + dur_ns / 5 })),
        }
    }
    VCase { min, dur_ns, ops, kind: "script" }
}

struct CaseOut {
    coq: String,
    failures: Vec<(String, usize)>,
    nontrivial: bool,
    canon: u64,
    steps: usize,
    hist: Hist,
    sample: J,
}

fn run_vcase(id: u64, g: &VCase) -> CaseOut {
    let mut hist = Hist::default();
    let mut iv = IpVoteFacade::new(g.min, Duration::from_nanos(g.dur_ns));
    let base = Instant::now();
    let t = |base: &Instant| base.elapsed().as_nanos() as u64;
    let mut ledger = Ledger::default();
    let mut steps = vec![];
    let mut failures = vec![];
    let mut h: u64 = 1469598103934665603;
    let mut winners = 0;
    let mut competing = false;
    for (i, op) in g.ops.iter().enumerate() {
        let mut e = Enc::new();
        let (coq_op, tb, ta, amb);
        match op {
            VOp::Sleep(ns) => {
                std::thread::sleep(Duration::from_nanos(*ns));
                hist.add("ipvote:sleep");
                continue;
            }
            VOp::Insert(n, s) => {
                tb = t(&base);
                iv.insert(node_id(*n), sock_addr(*s));
                ta = t(&base);
                ledger.insert(*n, *s, tb, ta, g.dur_ns, true);
                amb = false;
                e.n(0);
                coq_op = format!("VInsert {} {}", n, coq_sock(*s));
                hist.add(if s.0 { "ipvote:insert_v6" } else { "ipvote:insert_v4" });
            }
            VOp::Majority => {
                tb = t(&base);
                let r = catch(std::panic::AssertUnwindSafe(|| iv.majority()));
                ta = t(&base);
                amb = ledger.ambiguous(tb, ta);
                let (m4, m6) = match r {
                    Ok(x) => x,
                    Err(m) => {
                        failures.push((format!("majority panicked: {}", m), i));
                        break;
                    }
                };
                e.n(1);
                enc_opt(&mut e, m4.as_ref().map(code4));
                enc_opt(&mut e, m6.as_ref().map(code6));
                coq_op = "VMajority".to_string();
                for w in [m4.map(|a| (false, code4(&a))), m6.map(|a| (true, code6(&a)))].into_iter().flatten() {
                    winners += 1;
                    hist.add(if w.0 { "ipvote:winner_v6" } else { "ipvote:winner_v4" });
                    if let Some(msg) = ledger.check_winner(w, g.min, tb, ta) {
                        failures.push((msg, i));
                    }
                }
                // how often is there a leader that is denied by a rival?
                for fam in [false, true] {
                    let mut counts: BTreeMap<u64, usize> = BTreeMap::new();
                    for votes in ledger.fam[fam as usize].values() {
                        if let Some(v) = votes.last() {
                            if v.e_lo > ta {
                                *counts.entry(v.addr).or_insert(0) += 1;
                            }
                        }
                    }
                    let mx = counts.values().max().cloned().unwrap_or(0);
                    let none = if fam { m6.is_none() } else { m4.is_none() };
                    if mx >= g.min && none && !amb {
                        competing = true;
                        hist.add("ipvote:leader_denied_by_rival");
                    }
                }
                if amb {
                    hist.add("ipvote:time_ambiguous_step_skipped");
                } else {
                    hist.add("ipvote:majority_compared");
                }
            }
            VOp::HasMin => {
                tb = t(&base);
                let r = iv.has_minimum_threshold();
                ta = t(&base);
                amb = ledger.ambiguous(tb, ta);
                e.n(2).b(r.0).b(r.1);
                coq_op = "VHasMin".to_string();
                hist.add(if amb { "ipvote:time_ambiguous_step_skipped" } else { "ipvote:has_minimum_compared" });
            }
        }
        for s in e.0.iter() {
            for c in s.bytes() {
                h = (h ^ c as u64).wrapping_mul(1099511628211);
            }
        }
        steps.push(format!("({}, {}, {}, {}, {})", coq_op, tb, ta, coq_bool(amb), e.coq()));
        if !failures.is_empty() {
            break;
        }
    }
    hist.add(&format!("ipvote:case_{}", g.kind));
    hist.add(&format!("ipvote:minimum_{}", g.min));
    let coq = format!("({}, {}, {}, [{}])", id, g.min, g.dur_ns, steps.join(";\n  "));
    let sample = J::obj(vec![
        ("case", J::I(id as i64)),
        ("kind", J::s(g.kind)),
        ("minimum", J::I(g.min as i64)),
        ("vote_duration_ns", J::I(g.dur_ns as i64)),
        ("first_ops", J::A(g.ops.iter().take(12).map(|o| J::s(format!("{:?}", o))).collect())),
    ]);
    CaseOut { coq, failures, nontrivial: winners > 0 || competing, canon: h, steps: steps.len(), hist, sample }
}

// ------------------------------------------------------------------------------------------------
// part 2: the service's PONG handling

struct Peer {
    enr: Enr,
}

fn make_peers(seed: u64) -> Vec<Peer> {
    let mut rng = Rng::new(seed ^ 0x5eed_17);
    (0..12u64)
        .map(|i| {
            let mut kb = rng.bytes(32);
            kb[0] |= 1;
            let key = CombinedKey::secp256k1_from_bytes(&mut kb).unwrap();
            let enr = Enr::builder()
                .ip4(Ipv4Addr::new(10, 1, 0, i as u8 + 1))
                .udp4(9000 + i as u16)
                .build(&key)
                .unwrap();
            Peer { enr }
        })
        .collect()
}

struct SStep {
    peer: usize,
    sock: Sock,
    status: Option<(bool, bool)>, // (connected, incoming) to set before the vote; None = leave
    full_path: bool,              // through handle_rpc_response (else handle_ip_vote_from_pong directly)
    sleep_ns: u64,
}
struct SCase {
    min: usize,
    dur_ns: u64,
    dual: bool,
    auto_nat: bool,
    init4: Option<u64>,
    init6: Option<u64>,
    steps: Vec<SStep>,
    kind: &'static str,
}

/// One PONG of the random part of a script: voter, reported address (primary : rival : any other
/// of the family = `wsel`), the voter's table status set before it, the path and the sleep.
fn random_step(rng: &mut Rng, dur_ns: u64, n4: u64, n6: u64, v6_share: u64, wsel: &[u64; 3]) -> SStep {
    // peers 0..8 can be in the table, 9..11 never are
    let peer = if rng.chance(1, 8) { 9 + rng.below(3) as usize } else { rng.below(9) as usize };
    let v6 = n6 > 0 && rng.chance(v6_share, 10);
    let k = if v6 { n6 } else { n4 };
    let which = match rng.weighted(wsel) {
        0 => 0,
        1 => 1 % k,
        _ => rng.below(k),
    };
    let sock: Sock = if v6 { (true, 101 + which) } else { (false, 1 + which) };
    // now and then the PONG reports the unspecified address of the family
    let sock = if rng.chance(1, 10) { unspec(v6) } else { sock };
    let status = if peer >= 9 {
        None
    } else {
        match rng.weighted(&[50, 22, 12, 16]) {
            0 => Some((true, false)),
            1 => Some((true, true)),
            2 => Some((false, rng.chance(1, 2))),
            _ => None,
        }
    };
    let sleep_ns = match rng.weighted(&[80, 12, 8]) {
        0 => 0,
        1 => dur_ns / 3,
        _ => dur_ns + dur_ns / 4,
    };
    SStep { peer, sock, status, full_path: rng.chance(1, 2), sleep_ns }
}

fn shuffle<T>(rng: &mut Rng, v: &mut [T]) {
    for i in (1..v.len()).rev() {
        let j = rng.below(i as u64 + 1) as usize;
        v.swap(i, j);
    }
}

fn gen_scase(rng: &mut Rng, thorough: bool) -> SCase {
    match rng.weighted(&[5, 3, 2, 2]) {
        0 => gen_scase_random(rng, thorough),
        1 => gen_scase_tip(rng, thorough, false),
        2 => gen_scase_tip(rng, thorough, true),
        _ => gen_scase_withdrawn(rng, thorough),
    }
}

/// Scripts in which the quorum for an address is never complete at any one moment: `min` (or a few more) eligible
/// voters report A one after the other, but before the last of them does, one or more of the earlier ones have
/// changed their mind and reported something else (another address of the family, the unspecified address, or - in
/// the other variant - the same address again, which changes nothing). When the last A vote arrives, A is the most
/// recent vote of fewer voters than it has ever had: the record must not move to A unless the current votes carry
/// it. A random tail follows.
fn gen_scase_withdrawn(rng: &mut Rng, thorough: bool) -> SCase {
    let dur_ns = 80_000_000u64;
    let min = rng.range(2, 4) as usize;
    let dual = rng.chance(1, 2);
    let v6 = rng.chance(1, 2);
    let base: u64 = if v6 { 101 } else { 1 };
    let ca = rng.below(3);
    let n = min as u64 + rng.below(2);
    let mut voters: Vec<usize> = (0..9).collect();
    shuffle(rng, &mut voters);
    let eligible = Some((true, false));
    let mut steps: Vec<SStep> = vec![];
    // all but the last report A
    for p in voters.iter().take(n as usize - 1) {
        steps.push(SStep { peer: *p, sock: (v6, base + ca), status: eligible, full_path: rng.chance(1, 2), sleep_ns: 0 });
    }
    // some of them change their mind
    let k = rng.range(1, (n - 1).min(2));
    for p in voters.iter().take(k as usize) {
        let sock = match rng.below(4) {
            0 => (v6, base + ca), // says A again
            1 | 2 => unspec(v6),
            _ => (v6, base + (ca + 1 + rng.below(3)) % 5),
        };
        steps.push(SStep { peer: *p, sock, status: if rng.chance(3, 4) { eligible } else { None }, full_path: rng.chance(3, 4), sleep_ns: 0 });
    }
    // the last one reports A
    steps.push(SStep { peer: voters[n as usize - 1], sock: (v6, base + ca), status: eligible, full_path: rng.chance(1, 2), sleep_ns: 0 });
    let (n4, n6) = if v6 { (2, 5) } else { (5, if dual { 2 } else { 0 }) };
    let ntail = if thorough { rng.range(4, 24) } else { rng.range(2, 12) };
    for _ in 0..ntail {
        steps.push(random_step(rng, dur_ns, n4, n6, if v6 { 7 } else { 3 }, &[4, 3, 3]));
    }
    SCase {
        min,
        dur_ns,
        dual,
        auto_nat: rng.chance(1, 2),
        init4: if v6 { if rng.chance(1, 3) { Some(1) } else { None } } else if rng.chance(1, 3) { Some(base + (ca + 1) % 5) } else { None },
        init6: if v6 && rng.chance(1, 3) { Some(base + (ca + 1) % 5) } else { None },
        steps,
        kind: "quorum_never_complete_at_one_moment",
    }
}

fn gen_scase_random(rng: &mut Rng, thorough: bool) -> SCase {
    let min = rng.range(2, 5) as usize;
    let dur_ns = 80_000_000u64;
    let dual = rng.chance(1, 2);
    let n4 = rng.range(2, 3);
    let n6 = if dual || rng.chance(1, 3) { rng.range(1, 4) } else { 0 };
    // the share of IPv6 PONGs and how often a voter reports another address than the primary one
    let v6_share = if dual { *rng.pick(&[3u64, 5, 7]) } else { *rng.pick(&[2u64, 5]) };
    let wsel: [u64; 3] = *rng.pick(&[[6u64, 3, 1], [5, 3, 2], [4, 3, 3]]);
    let nsteps = if thorough { rng.range(20, 60) } else { rng.range(14, 36) };
    let mut steps = vec![];
    for _ in 0..nsteps {
        steps.push(random_step(rng, dur_ns, n4, n6, v6_share, &wsel));
    }
    SCase {
        min,
        dur_ns,
        dual,
        auto_nat: rng.chance(1, 2),
        init4: if rng.chance(1, 3) { Some(1) } else { None },
        init6: if n6 > 0 && rng.chance(1, 4) { Some(101 + rng.below(n6)) } else { None },
        steps,
        kind: "random",
    }
}

/// Scripts in which a majority becomes clear through a PONG that reports ANOTHER address than the
/// winner: `a` eligible voters report A and `b` report B, with `b` at or above the clear-majority
/// threshold of `a` (competing addresses, no winner; B is reported first so that A is never a
/// clear majority on the way). Then either B voters change their mind one after the other and
/// report third addresses (`by_expiry` = false), or B's older votes run out and the next PONG, for
/// a third address, is evaluated without them (`by_expiry` = true). The property wants the record
/// to follow the majority the votes form at that moment - never the address of the PONG that
/// happened to be processed. Two thirds of these scripts play in the IPv6 family. A random tail
/// follows.
fn gen_scase_tip(rng: &mut Rng, thorough: bool, by_expiry: bool) -> SCase {
    let dur_ns = 80_000_000u64;
    let min = rng.range(2, 5) as usize;
    let dual = rng.chance(1, 2);
    let v6 = rng.chance(2, 3);
    // a leader of 2 can never be a clear majority next to any other vote (threshold(2) = 1)
    let a = rng.range((min as u64).max(3), 5);
    let thr = clear_majority_threshold(a as usize) as u64;
    let b = rng.range(thr.min(a), a.min(9 - a));
    let base: u64 = if v6 { 101 } else { 1 };
    // which of the family's addresses play A and B (so that neither is always the lowest code)
    let (ca, cb) = *rng.pick(&[(0u64, 1u64), (1, 0), (2, 0), (0, 2)]);
    let mut third: Vec<u64> = (0..5).filter(|c| *c != ca && *c != cb).collect();
    if rng.chance(1, 2) {
        // one of the "third addresses" voters move to is the unspecified address of the family
        third.push(UNSPEC);
    }
    shuffle(rng, &mut third);
    let mut voters: Vec<usize> = (0..9).collect();
    shuffle(rng, &mut voters);
    let a_voters: Vec<usize> = voters[..a as usize].to_vec();
    let b_voters: Vec<usize> = voters[a as usize..(a + b) as usize].to_vec();
    let spare: Vec<usize> = voters[(a + b) as usize..].to_vec();
    let eligible = Some((true, false));
    let mut steps: Vec<SStep> = vec![];
    // build-up: B first (mostly), then A; or any order
    let mut order: Vec<(usize, u64)> = b_voters.iter().map(|p| (*p, cb)).chain(a_voters.iter().map(|p| (*p, ca))).collect();
    let b_first = by_expiry || rng.chance(3, 4);
    if !b_first {
        shuffle(rng, &mut order);
    }
    for (k, (p, c)) in order.iter().enumerate() {
        let sleep_ns = if by_expiry && k == b as usize { dur_ns / 2 } else { 0 };
        steps.push(SStep { peer: *p, sock: (v6, base + c), status: eligible, full_path: rng.chance(1, 2), sleep_ns });
    }
    if by_expiry {
        // B's votes have run out, A's have not; somebody reports a third address (or B again)
        let n = rng.range(1, 2);
        for k in 0..n {
            let p = if !spare.is_empty() && rng.chance(1, 2) { *rng.pick(&spare) } else { *rng.pick(&b_voters) };
            let c = if rng.chance(1, 5) { cb } else { third[(k as usize) % third.len()] };
            let sleep_ns = if k == 0 { dur_ns / 2 + dur_ns / 10 } else { 0 };
            steps.push(SStep { peer: p, sock: (v6, base + c), status: eligible, full_path: rng.chance(1, 2), sleep_ns });
        }
    } else {
        // B voters defect until B has fallen below the threshold (and sometimes further)
        let d_min = b - thr.min(b) + 1;
        let d = rng.range(d_min.min(b), b);
        let fresh_each = rng.chance(1, 2);
        let mut defectors = b_voters.clone();
        shuffle(rng, &mut defectors);
        for k in 0..d as usize {
            let c = if fresh_each { third[k % third.len()] } else { third[0] };
            steps.push(SStep { peer: defectors[k], sock: (v6, base + c), status: eligible, full_path: rng.chance(1, 2), sleep_ns: 0 });
        }
    }
    // random tail over the same addresses
    let (n4, n6) = if v6 { (2, 5) } else { (5, if dual { 2 } else { 0 }) };
    let v6_share = if v6 { 7 } else { 3 };
    let ntail = if thorough { rng.range(4, 24) } else { rng.range(2, 12) };
    for _ in 0..ntail {
        steps.push(random_step(rng, dur_ns, n4, n6, v6_share, &[4, 3, 3]));
    }
    // the initial record: none, or some address of the family (A itself included)
    let init = match rng.weighted(&[5, 2, 2, 1]) {
        0 => None,
        1 => Some(base + cb),
        2 => Some(base + third[0]),
        _ => Some(base + ca),
    };
    SCase {
        min,
        dur_ns,
        dual,
        auto_nat: rng.chance(1, 2),
        init4: if v6 { if rng.chance(1, 3) { Some(1) } else { None } } else { init },
        init6: if v6 { init } else { None },
        steps,
        kind: if by_expiry { "majority_emerges_by_expiry_of_the_rival" } else { "majority_emerges_by_defection_to_a_third_address" },
    }
}

fn enr_view(e: &Enr) -> (u64, Option<u64>, Option<u64>) {
    (e.seq(), e.udp4_socket().as_ref().map(code4), e.udp6_socket().as_ref().map(code6))
}

fn run_scase(id: u64, g: &SCase, peers: &[Peer], local_key_bytes: &[u8]) -> CaseOut {
    let mut hist = Hist::default();
    let key = CombinedKey::secp256k1_from_bytes(&mut local_key_bytes.to_vec()).unwrap();
    let mut b = Enr::builder();
    if let Some(c) = g.init4 {
        let a = addr4(c - 1);
        b.ip4(*a.ip()).udp4(a.port());
    }
    if let Some(c) = g.init6 {
        let a = addr6(c - 101);
        b.ip6(*a.ip()).udp6(a.port());
    }
    let local = b.build(&key).unwrap();
    let key2 = CombinedKey::secp256k1_from_bytes(&mut local_key_bytes.to_vec()).unwrap();
    let _ = key;
    let mut svc = PongService::new(
        local,
        key2,
        g.min,
        Duration::from_nanos(g.dur_ns),
        g.dual,
        if g.auto_nat { Some(Duration::from_secs(300)) } else { None },
        64,
    );
    // in a quarter of the cases the event stream overflows once before the votes arrive (a burst of
    // other events while the application is busy) and is then read empty: later changes of the
    // address must still be announced
    if id % 4 == 1 {
        svc.burst_of_events(64 + 6);
        let _ = svc.socket_events();
        hist.add("service:event_stream_overflowed_before_the_votes");
    }
    let base = Instant::now();
    let t = |base: &Instant| base.elapsed().as_nanos() as u64;
    let init = enr_view(&svc.local_enr());
    let mut ledger = Ledger::default();
    let mut steps = vec![];
    let mut failures: Vec<(String, usize)> = vec![];
    let mut h: u64 = 1469598103934665603;
    let mut updates = 0;
    let mut truncated = false;
    for (i, st) in g.steps.iter().enumerate() {
        if st.sleep_ns > 0 {
            std::thread::sleep(Duration::from_nanos(st.sleep_ns));
        }
        let peer = &peers[st.peer];
        let nid = peer.enr.node_id();
        if let Some((c, inc)) = st.status {
            svc.set_peer(peer.enr.clone(), c, inc);
        }
        // what the routing table says about the voter right now (an input of the model)
        let conn_out = matches!(svc.peer_status(&nid), Some((true, false)));
        let before = enr_view(&svc.local_enr());
        let tb = t(&base);
        let res = catch(std::panic::AssertUnwindSafe(|| {
            if st.full_path {
                svc.pong(peer.enr.clone(), peer.enr.seq(), sock_addr(st.sock))
            } else {
                svc.vote(nid, sock_addr(st.sock));
                true
            }
        }));
        let ta = t(&base);
        if let Err(m) = res {
            failures.push((format!("PONG handling panicked: {}", m), i));
            break;
        }
        ledger.insert(st.peer as u64, st.sock, tb, ta, g.dur_ns, conn_out);
        if ledger.ambiguous(tb, ta) {
            hist.add("service:case_truncated_at_time_ambiguous_step");
            truncated = true;
            break;
        }
        let enr = svc.local_enr();
        let after = enr_view(&enr);
        let (evs, other) = svc.socket_events();
        let evs: Vec<Sock> = evs
            .iter()
            .map(|s| match s {
                SocketAddr::V4(a) => (false, code4(a)),
                SocketAddr::V6(a) => (true, code6(a)),
            })
            .collect();
        // ---- monitor (property text)
        if other > 0 {
            hist.addn("service:other_events", other as u64);
        }
        let mut changed: Vec<Sock> = vec![];
        if after.1 != before.1 {
            match after.1 {
                Some(c) => changed.push((false, c)),
                None => failures.push(("the IPv4 UDP address of the record was removed by a PONG".into(), i)),
            }
        }
        if after.2 != before.2 {
            match after.2 {
                Some(c) => changed.push((true, c)),
                None => failures.push(("the IPv6 UDP address of the record was removed by a PONG".into(), i)),
            }
        }
        for c in &changed {
            updates += 1;
            hist.add(if c.0 { "service:udp6_updated" } else { "service:udp4_updated" });
            if *c != st.sock && ledger.possible(*c, tb) == 0 {
                failures.push(("the record changed to an address nobody voted for".into(), i));
            }
            if *c != st.sock {
                hist.add("service:updated_to_another_address_than_the_pong_reported");
            }
            match ledger.exact_counts(c.0, tb, ta) {
                Some(_) => hist.add("service:update_compared_with_the_monitors_own_majority"),
                None => hist.add("service:update_checked_by_vote_bounds_only"),
            }
            if let Some(m) = ledger.check_against_own_majority(*c, g.min, tb, ta) {
                failures.push((m, i));
            }
            if let Some(m) = ledger.check_winner(*c, g.min, tb, ta) {
                failures.push((format!("record updated: {}", m), i));
            }
            if after.0 <= before.0 {
                failures.push(("the record's UDP address changed without an increase of the sequence number".into(), i));
            }
            if !enr.verify() {
                failures.push(("the updated record's signature does not verify".into(), i));
            }
            if !evs.contains(c) {
                failures.push(("the record's UDP address changed without a SocketUpdated event".into(), i));
            }
        }
        if changed.is_empty() && !evs.is_empty() {
            failures.push(("SocketUpdated event although the record's UDP address did not change".into(), i));
        }
        if evs.len() > changed.len() {
            failures.push(("more SocketUpdated events than address changes".into(), i));
        }
        hist.add(match (conn_out, st.status) {
            (true, _) => "service:voter_connected_outgoing",
            (false, _) if svc.peer_status(&nid).is_none() => "service:voter_not_in_table",
            (false, _) => "service:voter_incoming_or_disconnected",
        });
        hist.add(if st.full_path { "service:via_handle_rpc_response" } else { "service:via_handle_ip_vote_from_pong" });
        // ---- encoding for the model
        let mut e = Enc::new();
        e.n(after.0);
        enc_opt(&mut e, after.1);
        enc_opt(&mut e, after.2);
        e.n(evs.len() as u64);
        for ev in &evs {
            e.b(ev.0).n(ev.1);
        }
        for s in e.0.iter() {
            for c in s.bytes() {
                h = (h ^ c as u64).wrapping_mul(1099511628211);
            }
        }
        h = (h ^ conn_out as u64).wrapping_mul(1099511628211);
        steps.push(format!(
            "({}, {}, {}, {}, {}, {})",
            st.peer,
            coq_sock(st.sock),
            coq_bool(conn_out),
            tb,
            ta,
            e.coq()
        ));
        if !failures.is_empty() {
            break;
        }
    }
    let _ = truncated;
    hist.add(if g.dual { "service:case_dual_stack" } else { "service:case_ip4_mode" });
    hist.add(&format!("service:case_{}", g.kind));
    hist.add(&format!("service:minimum_{}", g.min));
    hist.add(if g.auto_nat { "service:case_auto_nat_on" } else { "service:case_auto_nat_off" });
    let o = |x: Option<u64>| coq_opt(x.map(|v| v.to_string()));
    let coq = format!(
        "({}, {}, {}, {}, ({}, {}, {}), [{}])",
        id,
        g.min,
        g.dur_ns,
        coq_bool(g.dual),
        init.0,
        o(init.1),
        o(init.2),
        steps.join(";\n  ")
    );
    let sample = J::obj(vec![
        ("case", J::I(id as i64)),
        ("minimum", J::I(g.min as i64)),
        ("dual_stack", J::B(g.dual)),
        ("kind", J::s(g.kind)),
        ("initial_record", J::s(format!("{:?}", init))),
        ("first_steps", J::A(steps.iter().take(6).map(|s| J::s(s.clone())).collect())),
    ]);
    CaseOut { coq, failures, nontrivial: updates > 0, canon: h, steps: steps.len(), hist, sample }
}

// ------------------------------------------------------------------------------------------------
// part 3: PONGs, auto-NAT windows and event-stream subscriptions in the real main loop

mod lp {
    use super::*;
    use discv5::verif::service::{
        scripted_service, ConnectionDirection, HandlerIn, HandlerOut, NodeAddress, RequestBody, RequestId, Response, ResponseBody, ScriptedService,
    };
    use discv5::{ConfigBuilder, Event, ListenConfig};
    use tokio::sync::mpsc;

    const PING_INTERVAL_MS: u64 = 20_000;

    pub struct LCase {
        pub min: usize,
        pub dual: bool,
        /// the auto-NAT listen window in virtual milliseconds
        pub auto_nat: Option<u64>,
        pub init4: Option<u64>,
        pub init6: Option<u64>,
        /// share (of 10) of PONGs that report an IPv6 address: 0 = an IPv4-only vote history, 10 = IPv6-only
        pub v6_share: u64,
        pub n_moves: u64,
        /// the application subscribes a second time before anything else happens
        pub resubscribe_first: bool,
    }

    pub fn gen(rng: &mut Rng, thorough: bool) -> LCase {
        let dual = rng.chance(2, 3);
        let v6_share = if dual { *rng.pick(&[0u64, 10, 10, 3, 5, 7]) } else { *rng.pick(&[0u64, 0, 3, 10]) };
        LCase {
            min: rng.range(2, 4) as usize,
            dual,
            auto_nat: if rng.chance(3, 4) { Some(*rng.pick(&[300u64, 2_100, 30_100])) } else { None },
            init4: if rng.chance(2, 3) { Some(rng.range(1, 3)) } else { None },
            init6: if rng.chance(1, 5) { Some(101 + rng.below(3)) } else { None },
            v6_share,
            n_moves: if thorough { rng.range(16, 40) } else { rng.range(12, 26) },
            resubscribe_first: rng.chance(1, 4),
        }
    }

    async fn settle() {
        for _ in 0..16 {
            tokio::task::yield_now().await;
        }
    }

    /// `Discv5::event_stream()` against the running service.
    async fn subscribe(svc: &ScriptedService) -> Option<mpsc::Receiver<Event>> {
        let h = tokio::spawn(svc.discv5.event_stream());
        settle().await;
        if !h.is_finished() {
            h.abort();
            return None;
        }
        h.await.ok()?.ok()
    }

    fn peer_enrs(seed: u64) -> Vec<Enr> {
        let mut rng = Rng::new(seed ^ 0x5eed_1700_0100);
        (0..14u64)
            .map(|i| {
                let mut kb = rng.bytes(32);
                kb[0] |= 1;
                let key = CombinedKey::secp256k1_from_bytes(&mut kb).unwrap();
                if i < 9 {
                    Enr::builder().ip4(Ipv4Addr::new(10, 1, 0, i as u8 + 1)).udp4(9000 + i as u16).build(&key).unwrap()
                } else {
                    Enr::builder().ip6(Ipv6Addr::new(0xfd00, 0, 0, 0, 0, 0, 1, i as u16 + 1)).udp6(9000 + i as u16).build(&key).unwrap()
                }
            })
            .collect()
    }

    fn table_status(svc: &ScriptedService, id: &NodeId) -> Option<(bool, bool)> {
        let t = svc.kbuckets.read();
        for b in t.buckets_iter() {
            for n in b.iter() {
                if n.key.preimage() == id {
                    return Some((n.status.is_connected(), n.status.is_incoming()));
                }
            }
        }
        None
    }

    fn fam(v6: bool) -> &'static str {
        if v6 {
            "IPv6"
        } else {
            "IPv4"
        }
    }

    struct World {
        svc: ScriptedService,
        /// the receiver of the most recent `event_stream()` call: the current subscriber
        current: mpsc::Receiver<Event>,
        /// receivers of earlier calls the application has not dropped
        old: Vec<mpsc::Receiver<Event>>,
        resubscribed: bool,
        ledger: Ledger,
        tick: u64,
        vnow: u64,
        /// per family: (deadline of the auto-NAT window, incoming sessions seen in it)
        wait: [Option<(u64, usize)>; 2],
        /// per family: a window has run out, the implementation counts no votes of that family for six hours
        blocked: [bool; 2],
        /// per family: the PONGs that reported an address of the family
        votes_cast: [u64; 2],
        trace: Vec<String>,
        /// the steps of the Coq case: (event, tokio clock, observation)
        steps: Vec<String>,
        failures: Vec<(String, usize)>,
        hist: Hist,
        updates: u64,
    }

    #[derive(Clone, Copy, PartialEq)]
    enum Cause {
        Pong(Sock),
        Time,
        Other,
    }

    impl World {
        fn view(&self) -> (u64, Option<u64>, Option<u64>) {
            enr_view(&self.svc.local_enr.read())
        }
        fn socket_events(&mut self) -> (Vec<Sock>, usize) {
            let mut evs = vec![];
            let mut stale = 0;
            while let Ok(e) = self.current.try_recv() {
                if let Event::SocketUpdated(s) = e {
                    evs.push(match s {
                        SocketAddr::V4(a) => (false, code4(&a)),
                        SocketAddr::V6(a) => (true, code6(&a)),
                    });
                }
            }
            for r in self.old.iter_mut() {
                while let Ok(e) = r.try_recv() {
                    if let Event::SocketUpdated(_) = e {
                        stale += 1;
                    }
                }
            }
            (evs, stale)
        }

        /// The property on what one atomic step did to the local record. `before` is the record
        /// before the step.
        fn observe(&mut self, before: (u64, Option<u64>, Option<u64>), cause: Cause, min: usize, auto_nat: Option<u64>, model_event: Option<String>) {
            let i = self.trace.len().saturating_sub(1);
            let enr = self.svc.local_enr.read().clone();
            let after = enr_view(&enr);
            let (evs, stale) = self.socket_events();
            // ---- encoding for the model (Run/IpVoteRun.v check_loop); steps without a model event must
            // leave the record alone and announce nothing
            {
                let mut e = Enc::new();
                e.n(after.0);
                enc_opt(&mut e, after.1);
                enc_opt(&mut e, after.2);
                e.n(evs.len() as u64);
                for ev in &evs {
                    e.b(ev.0).n(ev.1);
                }
                let ev = model_event.unwrap_or_else(|| format!("LTime {}", self.vnow));
                self.steps.push(format!("({}, {}, {})", ev, self.vnow, e.coq()));
            }
            let mut announced_expected: Vec<Sock> = vec![];
            for v6 in [false, true] {
                let (b, a) = if v6 { (before.2, after.2) } else { (before.1, after.1) };
                if a == b {
                    continue;
                }
                let other = votes_phrase(self.votes_cast[v6 as usize], v6);
                match (cause, a) {
                    (Cause::Pong(s), Some(c)) if s.0 == v6 => {
                        // a change to an address through a PONG of this family: the clear majority at this moment
                        let c: Sock = (v6, c);
                        self.updates += 1;
                        announced_expected.push(c);
                        self.hist.add(if v6 { "loop:udp6_updated_by_majority" } else { "loop:udp4_updated_by_majority" });
                        if self.resubscribed {
                            self.hist.add("loop:socket_updated_after_a_second_subscription");
                        }
                        if c != s && self.ledger.possible(c, self.tick) == 0 {
                            self.failures.push(("the record changed to an address nobody voted for".into(), i));
                        }
                        if let Some(m) = self.ledger.check_against_own_majority(c, min, self.tick, self.tick) {
                            self.failures.push((m, i));
                        }
                        if let Some(m) = self.ledger.check_winner(c, min, self.tick, self.tick) {
                            self.failures.push((format!("record updated: {}", m), i));
                        }
                        if let Some(w) = auto_nat {
                            self.wait[v6 as usize] = Some((self.vnow + w, 0));
                        }
                    }
                    (Cause::Pong(s), _) if s.0 != v6 => {
                        self.failures.push((format!("the {} UDP address of the record changed while a PONG reporting an {} address was handled ({})", fam(v6), fam(!v6), other), i));
                    }
                    (Cause::Pong(_), None) => {
                        self.failures.push((format!("the {} UDP address of the record was removed by a PONG", fam(v6)), i));
                    }
                    (Cause::Time, None) if matches!(self.wait[v6 as usize], Some((d, _)) if d <= self.vnow + 1) => {
                        // the auto-NAT window of this family, opened by a majority of this family, ran out
                        self.wait[v6 as usize] = None;
                        self.blocked[v6 as usize] = true;
                        self.hist.add(if v6 { "loop:udp6_withdrawn_when_its_auto_nat_window_ran_out" } else { "loop:udp4_withdrawn_when_its_auto_nat_window_ran_out" });
                    }
                    (_, _) => {
                        let due: Vec<&str> = [false, true].into_iter().filter(|f| matches!(self.wait[*f as usize], Some((d, _)) if d <= self.vnow + 1)).map(fam).collect();
                        self.failures.push((
                            format!(
                                "the {} UDP address of the record changed (to {}) although no PONG was being handled and no {} auto-NAT window had run out ({}{})",
                                fam(v6),
                                if a.is_some() { "another address" } else { "nothing" },
                                fam(v6),
                                other,
                                if due.is_empty() { String::new() } else { format!("; the {} window ran out in this step", due.join(" and ")) }
                            ),
                            i,
                        ));
                    }
                }
            }
            // windows that have run out although nothing was withdrawn: the model of the window is lost
            for v6 in [false, true] {
                if matches!(self.wait[v6 as usize], Some((d, _)) if d + 2 <= self.vnow) && self.failures.is_empty() {
                    self.hist.add("loop:auto_nat_window_ran_out_and_nothing_was_withdrawn");
                    self.wait[v6 as usize] = None;
                    self.blocked[v6 as usize] = true;
                }
            }
            if after != before {
                if after.0 <= before.0 {
                    self.failures.push(("the record's UDP address changed without an increase of the sequence number".into(), i));
                }
                if !enr.verify() {
                    self.failures.push(("the changed record's signature does not verify".into(), i));
                }
            }
            // announced exactly once, to the current subscriber, with the new socket
            for c in &announced_expected {
                match evs.iter().filter(|e| *e == c).count() {
                    1 => {}
                    0 => self.failures.push((
                        if self.resubscribed {
                            format!("the record's UDP address changed without a SocketUpdated event on the application's current event stream (the application had subscribed again; {} such events went to an earlier stream)", stale)
                        } else {
                            "the record's UDP address changed without a SocketUpdated event".into()
                        },
                        i,
                    )),
                    _ => self.failures.push(("the change of the record's UDP address was announced more than once".into(), i)),
                }
            }
            if evs.len() > announced_expected.len() {
                self.failures.push(("SocketUpdated event although the record's UDP address was not changed by a majority".into(), i));
            }
        }
    }

    fn votes_phrase(n: u64, v6: bool) -> String {
        if n == 0 {
            format!("no PONG has ever reported an {} address", fam(v6))
        } else {
            format!("{} PONGs have reported {} addresses so far", n, fam(v6))
        }
    }

    pub fn run(id: u64, seed: u64, g: &LCase, rng: &mut Rng, local_key_bytes: &[u8]) -> CaseOut {
        let rt = tokio::runtime::Builder::new_current_thread().enable_all().start_paused(true).build().unwrap();
        rt.block_on(run_async(id, seed, g, rng, local_key_bytes))
    }

    async fn run_async(id: u64, seed: u64, g: &LCase, rng: &mut Rng, local_key_bytes: &[u8]) -> CaseOut {
        let key = CombinedKey::secp256k1_from_bytes(&mut local_key_bytes.to_vec()).unwrap();
        let mut b = Enr::builder();
        if let Some(c) = g.init4 {
            let a = addr4(c - 1);
            b.ip4(*a.ip()).udp4(a.port());
        }
        if let Some(c) = g.init6 {
            let a = addr6(c - 101);
            b.ip6(*a.ip()).udp6(a.port());
        }
        let local = b.build(&key).unwrap();
        let listen = if g.dual {
            ListenConfig::DualStack { ipv4: Ipv4Addr::UNSPECIFIED, ipv4_port: 9000, ipv6: Ipv6Addr::UNSPECIFIED, ipv6_port: 9001 }
        } else {
            ListenConfig::Ipv4 { ip: Ipv4Addr::UNSPECIFIED, port: 9000 }
        };
        let mut cb = ConfigBuilder::new(listen);
        cb.enr_peer_update_min(g.min)
            .vote_duration(Duration::from_secs(3600))
            .auto_nat_listen_duration(g.auto_nat.map(Duration::from_millis))
            .ping_interval(Duration::from_millis(PING_INTERVAL_MS));
        let svc = scripted_service(local, key, cb.build()).expect("scripted service");
        settle().await;
        let peers = peer_enrs(seed);
        let init = enr_view(&svc.local_enr.read());
        let mut failures: Vec<(String, usize)> = vec![];
        let first = subscribe(&svc).await;
        let Some(first) = first else {
            failures.push(("Discv5::event_stream() did not return a stream".into(), 0));
            return finish(id, g, init, vec![], vec![], failures, Hist::default(), 0);
        };
        let mut w = World {
            svc,
            current: first,
            old: vec![],
            resubscribed: false,
            ledger: Ledger::default(),
            tick: 1,
            vnow: 0,
            wait: [None, None],
            blocked: [false, false],
            votes_cast: [0, 0],
            trace: vec![],
            steps: vec![],
            failures,
            hist: Hist::default(),
            updates: 0,
        };
        const NEVER: u64 = 1 << 60;
        let n4 = 3u64;
        let n6 = 3u64;
        let wsel: [u64; 3] = *rng.pick(&[[6u64, 3, 1], [7, 2, 1], [5, 3, 2]]);
        let mut connected: Vec<usize> = vec![];
        let usable: Vec<usize> = if g.dual { (0..peers.len()).collect() } else { (0..9).collect() };
        let mut moves_left = g.n_moves;
        let mut force_resub = g.resubscribe_first;
        while moves_left > 0 && w.failures.is_empty() {
            moves_left -= 1;
            if w.svc.task.is_finished() {
                w.trace.push("the service task ended".into());
                w.failures.push(("the service task ended (panic in the main loop)".into(), w.trace.len() - 1));
                break;
            }
            let before = w.view();
            let fresh: Vec<usize> = usable.iter().cloned().filter(|p| !connected.contains(p)).collect();
            let kind = if force_resub {
                force_resub = false;
                3
            } else {
                rng.weighted(&[if fresh.is_empty() { 0 } else { 45 }, if fresh.is_empty() { 0 } else { 10 }, 35, 10])
            };
            match kind {
                0 | 1 => {
                    // the handler reports a session: outgoing (we dialled) or incoming
                    let p = *rng.pick(&fresh);
                    connected.push(p);
                    let incoming = kind == 1;
                    let enr = peers[p].clone();
                    // the session's remote socket: the peer's advertised one; an incoming session may
                    // come over the other family in dual-stack mode
                    let sock: SocketAddr = match (enr.udp4_socket(), enr.udp6_socket()) {
                        (Some(a), _) if !(incoming && g.dual && rng.chance(1, 2)) => a.into(),
                        (_, Some(a)) => a.into(),
                        (Some(_), None) => SocketAddr::V6(SocketAddrV6::new(Ipv6Addr::new(0xfd00, 0, 0, 0, 0, 0, 2, p as u16 + 1), 9100, 0, 0)),
                        _ => unreachable!(),
                    };
                    w.trace.push(format!("session with peer {} ({}, remote socket {})", p, if incoming { "incoming" } else { "outgoing" }, sock));
                    let dir = if incoming { ConnectionDirection::Incoming } else { ConnectionDirection::Outgoing };
                    if !w.svc.inject(HandlerOut::Established(enr, sock, dir)) {
                        w.failures.push(("the service no longer accepts handler events".into(), w.trace.len() - 1));
                        break;
                    }
                    settle().await;
                    if incoming {
                        let f = sock.is_ipv6() as usize;
                        if let Some((d, n)) = w.wait[f] {
                            w.wait[f] = if n + 1 >= 2 { w.hist.add("loop:auto_nat_window_closed_by_incoming_sessions"); None } else { Some((d, n + 1)) };
                        }
                    }
                    w.hist.add(if incoming { "loop:incoming_session" } else { "loop:outgoing_session" });
                    let ev = if incoming { Some(format!("LIncoming {}", coq_bool(sock.is_ipv6()))) } else { None };
                    w.observe(before, Cause::Other, g.min, g.auto_nat, ev);
                }
                2 => {
                    let d = *rng.pick(&[250u64, 250, 250, 1_000, 1_000, 5_000, PING_INTERVAL_MS + 250, PING_INTERVAL_MS + 250, 31_000]);
                    w.trace.push(format!("{} ms pass", d));
                    tokio::time::advance(Duration::from_millis(d)).await;
                    w.vnow += d;
                    settle().await;
                    w.hist.add("loop:time_passes");
                    w.observe(before, Cause::Time, g.min, g.auto_nat, None);
                }
                _ => {
                    // the application asks for the event stream again (its consumer was restarted, or a
                    // second component subscribes); it may or may not have dropped the old receiver
                    let keep = rng.chance(1, 2);
                    w.trace.push(format!("the application calls event_stream() again ({})", if keep { "the earlier receiver is kept" } else { "the earlier receiver is dropped first" }));
                    if !keep {
                        let (dummy_tx, dummy_rx) = mpsc::channel::<Event>(1);
                        drop(dummy_tx);
                        let old = std::mem::replace(&mut w.current, dummy_rx);
                        drop(old);
                    }
                    match subscribe(&w.svc).await {
                        Some(r) => {
                            let old = std::mem::replace(&mut w.current, r);
                            if keep {
                                w.old.push(old);
                            }
                            w.resubscribed = true;
                            w.hist.add("loop:event_stream_requested_again");
                        }
                        None => {
                            w.failures.push(("Discv5::event_stream() did not return a stream".into(), w.trace.len() - 1));
                            break;
                        }
                    }
                    w.observe(before, Cause::Other, g.min, g.auto_nat, None);
                }
            }
            // answer the PINGs the service has sent meanwhile, one PONG at a time
            let mut rounds = 0;
            loop {
                rounds += 1;
                let msgs = w.svc.drain();
                let pings: Vec<(NodeAddress, RequestId)> = msgs
                    .into_iter()
                    .filter_map(|m| match m {
                        HandlerIn::Request(contact, req) => match req.body {
                            RequestBody::Ping { .. } => Some((NodeAddress { socket_addr: contact.socket_addr(), node_id: contact.node_id() }, req.id.clone())),
                            _ => None,
                        },
                        _ => None,
                    })
                    .collect();
                if pings.is_empty() || rounds > 4 || !w.failures.is_empty() {
                    break;
                }
                for (na, rid) in pings {
                    let Some(p) = peers.iter().position(|e| e.node_id() == na.node_id) else { continue };
                    if rng.chance(1, 8) {
                        // the PING stays unanswered; mostly the handler gives the request up after its retries and
                        // reports the failure (the peer is marked disconnected). Votes are "the most recent unexpired
                        // vote" of a peer: a vote it has cast before stays what it is until it expires
                        if rng.chance(3, 4) {
                            w.trace.push(format!("PING to peer {} stays unanswered: the request fails (timeout)", p));
                            let before = w.view();
                            if !w.svc.inject(HandlerOut::RequestFailed(rid, discv5::RequestError::Timeout)) {
                                w.failures.push(("the service no longer accepts handler events".into(), w.trace.len() - 1));
                                break;
                            }
                            settle().await;
                            w.hist.add("loop:ping_request_failed");
                            if w.ledger.fam.iter().any(|f| f.contains_key(&(p as u64))) {
                                w.hist.add("loop:request_to_a_peer_that_has_voted_failed");
                            }
                            w.observe(before, Cause::Other, g.min, g.auto_nat, None);
                            if !w.failures.is_empty() {
                                break;
                            }
                        } else {
                            w.trace.push(format!("PING to peer {} stays unanswered", p));
                        }
                        continue;
                    }
                    let v6 = rng.chance(g.v6_share, 10);
                    let k = if v6 { n6 } else { n4 };
                    let which = match rng.weighted(&wsel) {
                        0 => 0,
                        1 => 1 % k,
                        _ => rng.below(k),
                    };
                    let s: Sock = if v6 { (true, 101 + which) } else { (false, 1 + which) };
                    let s = if rng.chance(1, 10) { unspec(v6) } else { s };
                    let sa = sock_addr(s);
                    let conn_out = matches!(table_status(&w.svc, &na.node_id), Some((true, false)));
                    let eligible = conn_out && !w.blocked[v6 as usize];
                    let before = w.view();
                    w.tick += 1;
                    w.trace.push(format!("PONG from peer {} reports {} (address code {}){}", p, sa, s.1, if eligible { "" } else { " [voter not certainly counted]" }));
                    let port = std::num::NonZeroU16::new(sa.port()).unwrap();
                    if !w.svc.inject(HandlerOut::Response(na, Box::new(Response { id: rid, body: ResponseBody::Pong { enr_seq: 1, ip: sa.ip(), port } }))) {
                        w.failures.push(("the service no longer accepts handler events".into(), w.trace.len() - 1));
                        break;
                    }
                    settle().await;
                    w.votes_cast[v6 as usize] += 1;
                    let t = w.tick;
                    w.ledger.insert(p as u64, s, t, t, NEVER, eligible);
                    w.hist.add(if v6 { "loop:pong_v6" } else { "loop:pong_v4" });
                    let ev = format!("LPong {} {} {} {}", p, coq_sock(s), coq_bool(conn_out), t);
                    w.observe(before, Cause::Pong(s), g.min, g.auto_nat, Some(ev));
                    if !w.failures.is_empty() {
                        break;
                    }
                }
            }
        }
        w.svc.task.abort();
        w.hist.add(if g.dual { "loop:case_dual_stack" } else { "loop:case_ip4_mode" });
        w.hist.add(&format!("loop:case_v6_share_{}", g.v6_share));
        w.hist.add(&format!("loop:case_auto_nat_{}", g.auto_nat.map(|x| format!("{}ms", x)).unwrap_or_else(|| "off".into())));
        let World { trace, steps, failures, hist, updates, .. } = w;
        finish(id, g, init, trace, steps, failures, hist, updates)
    }

    #[allow(clippy::too_many_arguments)]
    fn finish(id: u64, g: &LCase, init: (u64, Option<u64>, Option<u64>), trace: Vec<String>, steps: Vec<String>, failures: Vec<(String, usize)>, hist: Hist, updates: u64) -> CaseOut {
        let mut h: u64 = 1469598103934665603;
        for t in &trace {
            for c in t.bytes() {
                h = (h ^ c as u64).wrapping_mul(1099511628211);
            }
        }
        let text = format!(
            "minimum {}, {}, auto-NAT window {}, initial record {:?}, share of IPv6 PONGs {}/10; moves: {}",
            g.min,
            if g.dual { "dual stack" } else { "IPv4 mode" },
            g.auto_nat.map(|x| format!("{} ms", x)).unwrap_or_else(|| "off".into()),
            init,
            g.v6_share,
            trace.join(" | ")
        );
        let sample = J::obj(vec![
            ("case", J::I(id as i64)),
            ("summary", J::s(text)),
            ("minimum", J::I(g.min as i64)),
            ("dual_stack", J::B(g.dual)),
            ("auto_nat_ms", J::I(g.auto_nat.unwrap_or(0) as i64)),
            ("initial_record", J::s(format!("{:?}", init))),
            ("moves", J::A(trace.iter().map(|s| J::s(s.clone())).collect())),
        ]);
        let o = |x: Option<u64>| coq_opt(x.map(|v| v.to_string()));
        let coq = format!(
            "({}, {}, {}, {}, ({}, {}, {}), [{}])",
            id,
            g.min,
            coq_bool(g.dual),
            o(g.auto_nat),
            init.0,
            o(init.1),
            o(init.2),
            steps.join(";\n  ")
        );
        CaseOut { coq, failures, nontrivial: updates > 0, canon: h, steps: trace.len(), hist, sample }
    }
}

// ------------------------------------------------------------------------------------------------

pub fn case_rng(seed: u64, idx: u64, part: u64) -> Rng {
    Rng::new(
        seed.wrapping_mul(0x9E3779B97F4A7C15)
            .wrapping_add(idx.wrapping_mul(0xD1B54A32D192ED03))
            .wrapping_add(1700 + part),
    )
}

fn parallel<T: Send, F: Fn(u64) -> T + Sync>(range: &[u64], workers: usize, f: F) -> Vec<T> {
    let mut out: Vec<Option<T>> = range.iter().map(|_| None).collect();
    let next = std::sync::atomic::AtomicUsize::new(0);
    let slots = std::sync::Mutex::new(&mut out);
    std::thread::scope(|sc| {
        for _ in 0..workers.min(range.len().max(1)) {
            sc.spawn(|| {
                let rt = tokio::runtime::Builder::new_current_thread().enable_all().build().unwrap();
                let _g = rt.enter();
                loop {
                    let k = next.fetch_add(1, std::sync::atomic::Ordering::SeqCst);
                    if k >= range.len() {
                        break;
                    }
                    let r = f(range[k]);
                    slots.lock().unwrap()[k] = Some(r);
                }
            });
        }
    });
    out.into_iter().map(|x| x.unwrap()).collect()
}

pub fn main(args: &[String]) {
    let o = parse_opts(args);
    let mut only: Option<u64> = None;
    let mut part = "ipvote".to_string();
    let mut i = 0;
    while i < o.rest.len() {
        match o.rest[i].as_str() {
            "--only" => {
                only = Some(o.rest[i + 1].parse().unwrap());
                i += 1;
            }
            "--part" => {
                part = o.rest[i + 1].clone();
                i += 1;
            }
            _ => {}
        }
        i += 1;
    }
    let mut sum = Summary::new(&format!("vote/{}", part));
    let range: Vec<u64> = match only {
        Some(x) => vec![x],
        None => (0..o.cases).collect(),
    };
    if part == "thr" {
        // the threshold expression of ip_vote.rs for every leading count 0..=limit, in chunks;
        // the case file carries a hash per chunk, the model recomputes it
        let limit: u64 = if o.thorough { 2_000_000 } else { 100_000 };
        let chunk = 2000u64;
        let mut w = CaseWriter::new(&o.out, "thr_cases", HEADER, "tchunk", "check_thr", 13);
        let mut start = 0u64;
        let mut below_half_up = 0u64;
        let mut first_dev: Option<u64> = None;
        while start <= limit {
            let n = chunk.min(limit + 1 - start);
            let mut hsh = HashEnc::new();
            for m in start..start + n {
                let t = clear_majority_threshold(m as usize) as u64;
                hsh.n(t);
                // the design's guess: round-half-up of 0.7 * max
                if t != (7 * m + 5) / 10 {
                    below_half_up += 1;
                    first_dev.get_or_insert(m);
                }
                // monitor (property text): the margin is 30 % up to rounding
                if (10 * t) as i64 > 7 * m as i64 + 5 || ((10 * t) as i64) < 7 * m as i64 - 5 {
                    let file = o.out.join(format!("failure_C17_thr_{}.json", m));
                    let j = J::obj(vec![("component", J::s("vote")), ("property", J::s("C17")), ("seed", J::I(o.seed as i64)), ("case", J::I(0)), ("what", J::s(format!("threshold({}) = {}", m, t)))]);
                    std::fs::write(&file, j.render()).unwrap();
                    sum.monitor_failures.push(("C17:the clear-majority threshold is not 70 % of the leading count up to rounding".into(), format!("threshold({}) = {}", m, t), file.to_string_lossy().to_string()));
                }
            }
            w.push(format!("({}, {}, {})", start, n, hsh.value()));
            sum.evaluations += n;
            start += n;
        }
        w.flush();
        sum.hist.addn("thr:values_compared", sum.evaluations);
        sum.hist.addn("thr:differs_from_round_half_up_of_0.7max", below_half_up);
        sum.hist.addn("thr:first_value_that_differs", first_dev.unwrap_or(0));
        sum.distinct_nontrivial = sum.evaluations;
        sum.steps = sum.evaluations;
        sum.case_files = w.files.clone();
        sum.samples.push(J::obj(vec![("threshold(45)", J::I(clear_majority_threshold(45) as i64)), ("threshold(5)", J::I(clear_majority_threshold(5) as i64))]));
        sum.rule = format!("the f64 threshold expression of ip_vote.rs (hook copy next to the private constant; tied to the real decision by the boundary probes of the ipvote part) for every leading count 0..={}", limit);
        sum.write(&o.out);
        println!("vote/thr: {} values, {} differ from round-half-up", sum.evaluations, below_half_up);
        return;
    }
    let peers = make_peers(o.seed);
    let local_key_bytes = {
        let mut r = Rng::new(o.seed ^ 0x10ca1);
        let mut b = r.bytes(32);
        b[0] |= 1;
        b
    };
    let nprobe = NPROBE_SMALL + if o.thorough { 60 } else { 8 };
    let thorough = o.thorough;
    let seed = o.seed;
    let is_service = part == "service";
    if part == "loop" {
        let mut canon: BTreeSet<u64> = BTreeSet::new();
        let mut seen_sig: BTreeSet<String> = BTreeSet::new();
        std::fs::create_dir_all(&o.out).unwrap();
        let mut w = CaseWriter::new(&o.out, "loop_cases", HEADER, "lcase", "check_loop", 50);
        for idx in range.iter().cloned() {
            let mut rng = case_rng(seed, idx, 3);
            let g = lp::gen(&mut rng, thorough);
            let r = match catch(std::panic::AssertUnwindSafe(|| lp::run(idx, seed, &g, &mut rng, &local_key_bytes))) {
                Ok(r) => r,
                Err(m) => CaseOut { coq: String::new(), failures: vec![(format!("panic while running the case: {}", m), 0)], nontrivial: false, canon: 0, steps: 0, hist: Hist::default(), sample: J::Null },
            };
            sum.evaluations += 1;
            sum.steps += r.steps as u64;
            if r.nontrivial && canon.insert(r.canon) {
                sum.distinct_nontrivial += 1;
            }
            for (key, v) in &r.hist.0 {
                sum.hist.addn(key, *v);
            }
            if sum.samples.len() < 2 {
                sum.samples.push(r.sample.clone());
            }
            for (desc, step) in &r.failures {
                let sig: String = desc.chars().map(|c| if c.is_ascii_digit() { '#' } else { c }).collect();
                let sig = { let mut t = sig; while t.contains("##") { t = t.replace("##", "#"); } t };
                let sig = format!("C17:{}", sig);
                if seen_sig.insert(sig.clone()) || only.is_some() {
                    let file = o.out.join(format!("failure_C17_{}_{}_{}.json", part, idx, seen_sig.len()));
                    let j = J::obj(vec![
                        ("component", J::s("vote")),
                        ("part", J::s(part.clone())),
                        ("property", J::s("C17")),
                        ("seed", J::I(o.seed as i64)),
                        ("case", J::I(idx as i64)),
                        ("thorough", J::B(o.thorough)),
                        ("step", J::I(*step as i64)),
                        ("what", J::s(desc.clone())),
                        ("input", r.sample.clone()),
                        ("case_text", J::s(r.coq.clone())),
                    ]);
                    std::fs::write(&file, j.render()).unwrap();
                    sum.monitor_failures.push((sig, desc.clone(), file.to_string_lossy().to_string()));
                }
            }
            if !r.coq.is_empty() {
                w.push(r.coq);
            }
        }
        w.flush();
        sum.case_files = w.files.clone();
        for k in ["loop:udp4_withdrawn_when_its_auto_nat_window_ran_out", "loop:udp6_withdrawn_when_its_auto_nat_window_ran_out", "loop:socket_updated_after_a_second_subscription", "loop:auto_nat_window_ran_out_and_nothing_was_withdrawn"] {
            sum.hist.addn(k, 0);
        }
        sum.rule = "the real Service::start loop (scripted service, paused clock, ping interval 20 s, vote duration 1 h): up to 14 peers (9 with IPv4 records, 5 with IPv6 records in dual-stack mode) get sessions (outgoing: the service pings at once; incoming: counted by the auto-NAT window of the family of the session's socket), time passes (250 ms .. 31 s: ping-interval PINGs, auto-NAT windows of 300 ms / 2.1 s / 30.1 s or none run out in the loop's timer arm, which withdraws the address and pings every connected peer), the application calls Discv5::event_stream() again (keeping or dropping the earlier receiver; in a quarter of the cases before anything else); every PING the service emits is answered (11 of 12) with a PONG that reports an IPv4 or IPv6 address (share of IPv6 0, 3, 5, 7 or 10 of 10; primary : rival : other address 6:3:1 .. 5:3:2), one PONG at a time; after every step the local record is compared with the record before: a family's UDP address may change to an address only while a PONG of that family is handled and only to the clear majority of the monitor's own tally, to nothing only when that family's own auto-NAT window (opened by such a change, not closed by two incoming sessions of the family) has run out; every majority change must raise the sequence number, keep the signature valid and be announced exactly once on the most recent event stream; non-trivial = the record's address changed at least once; distinct = new trace".to_string();
        sum.write(&o.out);
        println!("vote/loop: {} cases, {} steps, {} distinct non-trivial, {} monitor failure signatures", sum.evaluations, sum.steps, sum.distinct_nontrivial, sum.monitor_failures.len());
        return;
    }
    let results: Vec<CaseOut> = parallel(&range, 16, |idx| {
        if is_service {
            let mut rng = case_rng(seed, idx, 2);
            let g = gen_scase(&mut rng, thorough);
            run_scase(idx, &g, &peers, &local_key_bytes)
        } else {
            let mut rng = case_rng(seed, idx, 1);
            let g = if idx < nprobe { gen_probe(idx, &mut rng) } else { gen_script(&mut rng, thorough) };
            run_vcase(idx, &g)
        }
    });
    let (prefix, ty, check, per_file) = if is_service { ("svc_cases", "scase", "check_svc", 50) } else { ("vote_cases", "vcase", "check_all", 50) };
    let mut w = CaseWriter::new(&o.out, prefix, HEADER, ty, check, per_file);
    let mut canon: BTreeSet<u64> = BTreeSet::new();
    let mut seen_sig: BTreeSet<String> = BTreeSet::new();
    // counters that must be visible even when they are zero
    sum.hist.addn(if is_service { "service:case_truncated_at_time_ambiguous_step" } else { "ipvote:time_ambiguous_step_skipped" }, 0);
    for (k, r) in results.into_iter().enumerate() {
        let idx = range[k];
        sum.evaluations += 1;
        sum.steps += r.steps as u64;
        if r.nontrivial && canon.insert(r.canon) {
            sum.distinct_nontrivial += 1;
        }
        for (key, v) in &r.hist.0 {
            sum.hist.addn(key, *v);
        }
        if sum.samples.len() < 2 && (idx >= nprobe || is_service || only.is_some()) {
            sum.samples.push(r.sample.clone());
        }
        for (desc, step) in &r.failures {
            let sig: String = desc.chars().map(|c| if c.is_ascii_digit() { '#' } else { c }).collect();
            let sig = { let mut t = sig; while t.contains("##") { t = t.replace("##", "#"); } t };
            let sig = format!("C17:{}", sig);
            if seen_sig.insert(sig.clone()) || only.is_some() {
                let file = o.out.join(format!("failure_C17_{}_{}.json", part, idx));
                let j = J::obj(vec![
                    ("component", J::s("vote")),
                    ("part", J::s(part.clone())),
                    ("property", J::s("C17")),
                    ("seed", J::I(o.seed as i64)),
                    ("case", J::I(idx as i64)),
                    ("thorough", J::B(o.thorough)),
                    ("step", J::I(*step as i64)),
                    ("what", J::s(desc.clone())),
                    ("case_text", J::s(r.coq.clone())),
                ]);
                std::fs::write(&file, j.render()).unwrap();
                sum.monitor_failures.push((sig, desc.clone(), file.to_string_lossy().to_string()));
            }
        }
        w.push(r.coq);
    }
    w.flush();
    sum.case_files = w.files.clone();
    sum.rule = if is_service {
        "PONG scripts against a real Service (no handler task): minimum 2..5, vote_duration 80 ms on the real clock, IPv4-only and dual-stack mode; half of the cases are random scripts over 2-3 IPv4 and 0-4 IPv6 reported addresses (share of IPv6 PONGs 2/10..7/10, primary : rival : other address 6:3:1 .. 4:3:3), 3/10 are scripts in which a majority becomes clear through a PONG for ANOTHER address (a = 3..5 eligible voters for A against b voters for B with threshold(a) <= b <= a, B reported first, then B voters defect one by one to third addresses) and 2/10 the same with the rival running out instead (B reported, half a vote duration later A, 6/10 of a vote duration later a PONG for a third address or for B), two thirds of both in the IPv6 family, followed by a random tail; 2/12 of the cases are scripts in which the quorum for an address is never complete at one moment (min..min+1 voters report A, but before the last does 1-2 of the earlier ones report something else: another address, the unspecified address, or A again); one PONG in ten of the random parts reports the unspecified address (0.0.0.0 / ::) of its family, which is a vote like any other; 12 voters of which 3 are never in the routing table, the voter's table status (connected/outgoing, connected/incoming, disconnected, unchanged) set before each PONG and read back, half of the PONGs through handle_rpc_response and half through handle_ip_vote_from_pong, sleeps of 1/3 and 5/4 of the vote duration, initial record with or without an address; a case ends at the first time-ambiguous step; every change of the record is compared with the bounds the votes sent give (distinct voters ever, possible current voters, certain rivals) and, when the votes sent determine it (every live voter's most recent PONG certainly counted, no expiry inside the measured bracket), with the monitor's own tally of the most recent unexpired vote per voter; non-trivial = the record's address changed at least once; distinct = new observation trace".to_string()
    } else {
        format!("IpVote through IpVoteFacade on the real clock: first {} boundary probes (leading count 2..65, two crowds of 610..780 leading voters - more than 1024 live votes in all - and random counts up to 400, rival one below / at the code's threshold, then a voter changing its vote; vote_duration 1 h), then scripts with minimum 2..6, vote_duration 30 ms, up to 14 voters, 2-4 IPv4 and 0-3 IPv6 addresses (primary : rival : other = 6:3:1), majority() after every insert, has_minimum_threshold(), sleeps of 1/3 and 6/5 of the vote duration; steps whose result could depend on where in the measured bracket the clock was read are skipped and counted; non-trivial = some majority existed or a leader was denied by a rival; distinct = new observation trace", nprobe)
    };
    sum.write(&o.out);
    println!(
        "vote/{}: {} cases, {} steps, {} distinct non-trivial, {} monitor failure signatures",
        part,
        sum.evaluations,
        sum.steps,
        sum.distinct_nontrivial,
        sum.monitor_failures.len()
    );
}
