//! Configuration plumbing (component `glue`): what the application configures through
//! `ConfigBuilder` must be what the routing table, the service, the handler and the process-wide
//! permit/ban list work with.  The path under test is the public one:
//! application -> `ConfigBuilder` setters -> `build()` -> `Discv5::new` -> `Discv5::start` ->
//! the real `Service::spawn` -> the real `Handler::spawn` (loopback UDP sockets).  The two
//! constructors record the `Config` they were handed (hook `discv5::verif::glue`).
//!
//! Per case: a random list of setter calls with recognisable values (every field has its own range,
//! so a value that lands in another field shows), then
//!  (a) the fields of the built `Config`,
//!  (b) probes of what `Discv5::new` derived: how many connected incoming nodes one bucket of the
//!      node's routing table accepts, whether a bucket refuses a third record of one /24, the six
//!      counts of the process-wide permit/ban list,
//!  (c), (d) for a node that is started: the fields of the `Config` seen by `Service::spawn` and by
//!      `Handler::spawn`.
//! Direct monitors (independent of Coq): for every field, configured last (or documented default)
//! == built == seen by the service == seen by the handler (== probe).  A failure is attributed to
//! the properties that depend on the field.  The Coq case files carry the setter list and the
//! observations for the correspondence with Model/Config.v.
//!
//! `harness glue [--focus cNN] --seed S --cases N --out DIR [--only I]`
use crate::common::*;
use discv5::enr::{CombinedKey, NodeId};
use discv5::kbucket::{FailureReason, InsertResult, Key, NodeStatus};
use discv5::{
    Config, ConfigBuilder, ConnectionDirection, ConnectionState, Discv5, Enr, ListenConfig, PermitBanList,
    ProtocolIdentity, RateLimiter, RateLimiterBuilder,
};
use std::collections::BTreeSet;
use std::net::{IpAddr, Ipv4Addr};
use std::sync::OnceLock;
use std::time::{Duration, Instant};

pub const HEADER: &str = "From Coq Require Import List NArith.\nImport ListNotations.\nFrom Discv5V Require Import Model.Config Run.Common Run.ConfigRun.\nOpen Scope N_scope.";

// ------------------------------------------------------------------------------------------------
// field values

#[derive(Clone, Debug, PartialEq, Eq)]
enum Val {
    B(bool),
    N(u64),
    O(Option<u64>),
    /// rate limiter: total (tau, t), node limiter present / tau / t, ip limiter present / tau / t
    R(Option<[u64; 8]>),
    /// permit/ban list: the six counts
    P([u64; 6]),
    /// protocol identity: id bytes and version bytes as numbers
    I(u64, u64),
}

impl Val {
    fn enc(&self, e: &mut Enc) {
        match self {
            Val::B(b) => {
                e.b(*b);
            }
            Val::N(n) => {
                e.n(*n);
            }
            Val::O(None) | Val::R(None) => {
                e.n(0);
            }
            Val::O(Some(x)) => {
                e.n(1).n(*x);
            }
            Val::R(Some(r)) => {
                e.n(1).n(8);
                for x in r {
                    e.n(*x);
                }
            }
            Val::P(p) => {
                for x in p {
                    e.n(*x);
                }
            }
            Val::I(a, b) => {
                e.n(*a).n(*b);
            }
        }
    }
    /// the nine argument slots of a setter in the case file
    fn slots(&self) -> [u64; 9] {
        let mut s = [0u64; 9];
        match self {
            Val::B(_) => {}
            Val::N(n) => s[0] = *n,
            Val::O(o) => {
                s[0] = o.is_some() as u64;
                s[1] = o.unwrap_or(0);
            }
            Val::R(r) => {
                if let Some(r) = r {
                    s[0] = 1;
                    s[1..9].copy_from_slice(r);
                }
            }
            Val::P(p) => s[0..6].copy_from_slice(p),
            Val::I(a, b) => {
                s[0] = *a;
                s[1] = *b;
            }
        }
        s
    }
    fn show(&self) -> String {
        match self {
            Val::B(b) => format!("{}", b),
            Val::N(n) => format!("{}", n),
            Val::O(o) => format!("{:?}", o),
            Val::R(None) => "None".into(),
            Val::R(Some(r)) => format!(
                "Some(total every {} ns / one per {} ns, node {}, ip {})",
                r[0],
                r[1],
                if r[2] == 1 { format!("every {} ns / one per {} ns", r[3], r[4]) } else { "none".into() },
                if r[5] == 1 { format!("every {} ns / one per {} ns", r[6], r[7]) } else { "none".into() }
            ),
            Val::P(p) => format!(
                "permitted ips {}, permitted nodes {}, banned ips {} permanent + {} expiring, banned nodes {} permanent + {} expiring",
                p[0], p[1], p[2], p[3], p[4], p[5]
            ),
            Val::I(a, b) => format!("id 0x{:012x} version 0x{:04x}", a, b),
        }
    }
}

// ------------------------------------------------------------------------------------------------
// the fields of Config (order = the setter numbers of Run/ConfigRun.v = the order of Model/Config.v)

struct Field {
    name: &'static str,
    /// the properties whose parameters this field feeds
    props: &'static [&'static str],
}

const F_ENABLE_PACKET_FILTER: usize = 0;
const F_REQUEST_TIMEOUT: usize = 1;
const F_VOTE_DURATION: usize = 2;
const F_QUERY_PEER_TIMEOUT: usize = 3;
const F_QUERY_TIMEOUT: usize = 4;
const F_REQUEST_RETRIES: usize = 5;
const F_SESSION_TIMEOUT: usize = 6;
const F_SESSION_CACHE_CAPACITY: usize = 7;
const F_ENR_UPDATE: usize = 8;
const F_MAX_NODES_RESPONSE: usize = 9;
const F_ENR_PEER_UPDATE_MIN: usize = 10;
const F_QUERY_PARALLELISM: usize = 11;
const F_IP_LIMIT: usize = 12;
const F_INCOMING_BUCKET_LIMIT: usize = 13;
const F_TABLE_FILTER: usize = 14;
const F_PING_INTERVAL: usize = 15;
const F_REPORT_DISCOVERED_PEERS: usize = 16;
const F_FILTER_RATE_LIMITER: usize = 17;
const F_FILTER_MAX_NODES_PER_IP: usize = 18;
const F_FILTER_MAX_BANS_PER_IP: usize = 19;
const F_PERMIT_BAN_LIST: usize = 20;
const F_BAN_DURATION: usize = 21;
const F_AUTO_NAT_LISTEN_DURATION: usize = 22;
const F_PROTOCOL_IDENTITY: usize = 23;
const NFIELDS: usize = 24;

const FIELDS: [Field; NFIELDS] = [
    Field { name: "enable_packet_filter", props: &["C18", "C13"] },
    Field { name: "request_timeout", props: &["C03", "C04"] },
    Field { name: "vote_duration", props: &["C17"] },
    Field { name: "query_peer_timeout", props: &["C10"] },
    Field { name: "query_timeout", props: &["C09"] },
    Field { name: "request_retries", props: &["C04"] },
    Field { name: "session_timeout", props: &["C15"] },
    Field { name: "session_cache_capacity", props: &["C15"] },
    Field { name: "enr_update", props: &["C17"] },
    Field { name: "max_nodes_response", props: &["C14", "C08"] },
    Field { name: "enr_peer_update_min", props: &["C17"] },
    Field { name: "query_parallelism", props: &["C10"] },
    Field { name: "ip_limit", props: &["C16"] },
    Field { name: "incoming_bucket_limit", props: &["C07"] },
    Field { name: "table_filter", props: &["C12"] },
    Field { name: "ping_interval", props: &["C15"] },
    Field { name: "report_discovered_peers", props: &["C11"] },
    Field { name: "filter_rate_limiter", props: &["C18"] },
    Field { name: "filter_max_nodes_per_ip", props: &["C18"] },
    Field { name: "filter_max_bans_per_ip", props: &["C18"] },
    Field { name: "permit_ban_list", props: &["C18"] },
    Field { name: "ban_duration", props: &["C11"] },
    Field { name: "auto_nat_listen_duration", props: &["C17"] },
    Field { name: "protocol_identity", props: &["C05"] },
];

const ALL_PROPS: [&str; 15] = ["C03", "C04", "C05", "C07", "C08", "C09", "C10", "C11", "C12", "C13", "C14", "C15", "C16", "C17", "C18"];

/// The defaults as the documentation of `Config` states them (the monitor's own table; the Coq
/// model has its own, written from `ConfigBuilder::new`).
fn documented_defaults() -> Vec<Val> {
    vec![
        Val::B(false),                  // enable_packet_filter: "Default: false"
        Val::N(1_000),                  // request_timeout: "Default: 1 seconds"
        Val::N(120_000),                // vote_duration: "Default is 2 minutes"
        Val::N(2_000),                  // query_peer_timeout: "Default: 2 seconds"
        Val::N(60_000),                 // query_timeout: "Default 60 seconds"
        Val::N(1),                      // request_retries: "Default: 1"
        Val::N(86_400_000),             // session_timeout: "Default: 1 day"
        Val::N(1000),                   // session_cache_capacity: "Default: 1000"
        Val::B(true),                   // enr_update: "Default: true"
        Val::N(16),                     // max_nodes_response: "The default is 16"
        Val::N(10),                     // enr_peer_update_min: "Default: 10"
        Val::N(3),                      // query_parallelism: "Default: 3"
        Val::B(false),                  // ip_limit: "Default: false"
        Val::N(16),                     // incoming_bucket_limit: "disabled (set to the maximum bucket size, 16)"
        Val::N(0),                      // table_filter: "The default is to accept all nodes"
        Val::N(300_000),                // ping_interval: "Default: 300 seconds"
        Val::B(true),                   // report_discovered_peers: "Default true"
        // filter_rate_limiter: 10 per second in total, 8 per node, 9 per ip (ConfigBuilder::new)
        Val::R(Some([1_000_000_000, 100_000_000, 1, 1_000_000_000, 125_000_000, 1, 1_000_000_000, 111_111_111])),
        Val::O(Some(10)),               // filter_max_nodes_per_ip: "Default value is 10"
        Val::O(Some(5)),                // filter_max_bans_per_ip: "The default is 5"
        Val::P([0; 6]),                 // permit_ban_list: empty
        Val::O(Some(3_600_000)),        // ban_duration: "Default is 1 hour"
        Val::O(Some(300_000)),          // auto_nat_listen_duration: "The default is Some(5 minutes)"
        Val::I(0x6469_7363_7635, 1),    // protocol_identity: "discv5", version 1
    ]
}

// ------------------------------------------------------------------------------------------------
// table filters owned by the harness, told apart by their answers on two probe records

fn tf_only_a(e: &Enr) -> bool {
    e.udp4() == Some(9001)
}
fn tf_only_b(e: &Enr) -> bool {
    e.udp4() == Some(9002)
}
fn tf_none(_e: &Enr) -> bool {
    false
}
fn table_filter_fn(n: u64) -> fn(&Enr) -> bool {
    match n {
        1 => tf_only_a,
        2 => tf_only_b,
        _ => tf_none,
    }
}

struct Pool {
    probe_a: Enr,
    probe_b: Enr,
    /// records in pairwise distinct /24 networks
    spread: Vec<Enr>,
    /// three records of one /24
    same24: Vec<Enr>,
}
static POOL: OnceLock<Pool> = OnceLock::new();
fn pool() -> &'static Pool {
    POOL.get_or_init(|| {
        let mk = |ip: Ipv4Addr, port: u16| {
            let key = CombinedKey::generate_secp256k1();
            Enr::builder().ip4(ip).udp4(port).build(&key).unwrap()
        };
        Pool {
            probe_a: mk(Ipv4Addr::new(198, 51, 100, 1), 9001),
            probe_b: mk(Ipv4Addr::new(198, 51, 100, 2), 9002),
            spread: (0..18u8).map(|i| mk(Ipv4Addr::new(10, 20 + i, 0, 1), 9100)).collect(),
            same24: (0..3u8).map(|i| mk(Ipv4Addr::new(172, 16, 5, 1 + i), 9200)).collect(),
        }
    })
}
fn table_filter_code(f: fn(&Enr) -> bool) -> u64 {
    let p = pool();
    ((!f(&p.probe_a)) as u64) * 2 + (!f(&p.probe_b)) as u64
}

fn limiter_val(r: &Option<RateLimiter>) -> Val {
    Val::R(r.as_ref().map(|r| {
        let (tot, node, ip) = r.verif_state();
        let n = node.map(|(tau, t, _)| [1, tau, t]).unwrap_or([0, 0, 0]);
        let i = ip.map(|(tau, t, _)| [1, tau, t]).unwrap_or([0, 0, 0]);
        [tot.0, tot.1, n[0], n[1], n[2], i[0], i[1], i[2]]
    }))
}
fn list_counts(l: &PermitBanList) -> [u64; 6] {
    [
        l.permit_ips.len() as u64,
        l.permit_nodes.len() as u64,
        l.ban_ips.values().filter(|t| t.is_none()).count() as u64,
        l.ban_ips.values().filter(|t| t.is_some()).count() as u64,
        l.ban_nodes.values().filter(|t| t.is_none()).count() as u64,
        l.ban_nodes.values().filter(|t| t.is_some()).count() as u64,
    ]
}
fn be(bytes: &[u8]) -> u64 {
    bytes.iter().fold(0u64, |a, b| (a << 8) | *b as u64)
}
fn ms(d: Duration) -> u64 {
    d.as_millis() as u64
}

/// Reads every modelled field of a `Config`.
fn snapshot(c: &Config) -> Vec<Val> {
    vec![
        Val::B(c.enable_packet_filter),
        Val::N(ms(c.request_timeout)),
        Val::N(ms(c.vote_duration)),
        Val::N(ms(c.query_peer_timeout)),
        Val::N(ms(c.query_timeout)),
        Val::N(c.request_retries as u64),
        Val::N(ms(c.session_timeout)),
        Val::N(c.session_cache_capacity as u64),
        Val::B(c.enr_update),
        Val::N(c.max_nodes_response as u64),
        Val::N(c.enr_peer_update_min as u64),
        Val::N(c.query_parallelism as u64),
        Val::B(c.ip_limit),
        Val::N(c.incoming_bucket_limit as u64),
        Val::N(table_filter_code(c.table_filter)),
        Val::N(ms(c.ping_interval)),
        Val::B(c.report_discovered_peers),
        limiter_val(&c.filter_rate_limiter),
        Val::O(c.filter_max_nodes_per_ip.map(|x| x as u64)),
        Val::O(c.filter_max_bans_per_ip.map(|x| x as u64)),
        Val::P(list_counts(&c.permit_ban_list)),
        Val::O(c.ban_duration.map(ms)),
        Val::O(c.auto_nat_listen_duration.map(ms)),
        Val::I(be(&c.protocol_identity.protocol_id), be(&c.protocol_identity.protocol_version)),
    ]
}
fn enc_snapshot(s: &[Val], e: &mut Enc) {
    for v in s {
        v.enc(e);
    }
}

// ------------------------------------------------------------------------------------------------
// setter calls

/// (field / setter number, argument)
type Op = (usize, Val);

fn op_text(op: &Op) -> String {
    let n = FIELDS[op.0].name;
    match op.0 {
        F_ENABLE_PACKET_FILTER => "enable_packet_filter()".into(),
        F_ENR_UPDATE => "disable_enr_update()".into(),
        F_IP_LIMIT => "ip_limit()".into(),
        F_REPORT_DISCOVERED_PEERS => "disable_report_discovered_peers()".into(),
        F_TABLE_FILTER => format!("table_filter(harness fn #{})", op.1.show()),
        F_REQUEST_TIMEOUT | F_VOTE_DURATION | F_QUERY_PEER_TIMEOUT | F_QUERY_TIMEOUT | F_SESSION_TIMEOUT | F_PING_INTERVAL => {
            format!("{}({} ms)", n, op.1.show())
        }
        F_BAN_DURATION | F_AUTO_NAT_LISTEN_DURATION => format!("{}({} [ms])", n, op.1.show()),
        _ => format!("{}({})", n, op.1.show()),
    }
}

fn make_limiter(r: &[u64; 8]) -> RateLimiter {
    // t = tau / n, generated with tau a multiple of n
    let mut b = RateLimiterBuilder::new().total_n_every(r[0] / r[1], Duration::from_nanos(r[0]));
    if r[2] == 1 {
        b = b.node_n_every(r[3] / r[4], Duration::from_nanos(r[3]));
    }
    if r[5] == 1 {
        b = b.ip_n_every(r[6] / r[7], Duration::from_nanos(r[6]));
    }
    b.build().expect("limiter")
}

fn make_list(p: &[u64; 6]) -> PermitBanList {
    let mut l = PermitBanList::default();
    let later = Instant::now() + Duration::from_secs(3600);
    let nid = |tag: u8, i: u64| {
        let mut raw = [0u8; 32];
        raw[0] = tag;
        raw[31] = i as u8 + 1;
        NodeId::new(&raw)
    };
    for i in 0..p[0] {
        l.permit_ips.insert(IpAddr::V4(Ipv4Addr::new(203, 0, 113, i as u8 + 1)));
    }
    for i in 0..p[1] {
        l.permit_nodes.insert(nid(0xA1, i));
    }
    for i in 0..p[2] {
        l.ban_ips.insert(IpAddr::V4(Ipv4Addr::new(192, 0, 2, i as u8 + 1)), None);
    }
    for i in 0..p[3] {
        l.ban_ips.insert(IpAddr::V4(Ipv4Addr::new(192, 0, 2, i as u8 + 101)), Some(later));
    }
    for i in 0..p[4] {
        l.ban_nodes.insert(nid(0xB1, i), None);
    }
    for i in 0..p[5] {
        l.ban_nodes.insert(nid(0xB2, i), Some(later));
    }
    l
}

/// One call of a `ConfigBuilder` setter, as an application would make it.
fn call_setter(b: &mut ConfigBuilder, op: &Op) {
    let d = |v: &Val| match v {
        Val::N(n) => Duration::from_millis(*n),
        _ => unreachable!(),
    };
    let n = |v: &Val| match v {
        Val::N(n) => *n as usize,
        _ => unreachable!(),
    };
    let o = |v: &Val| match v {
        Val::O(o) => *o,
        _ => unreachable!(),
    };
    match op.0 {
        F_ENABLE_PACKET_FILTER => {
            b.enable_packet_filter();
        }
        F_REQUEST_TIMEOUT => {
            b.request_timeout(d(&op.1));
        }
        F_VOTE_DURATION => {
            b.vote_duration(d(&op.1));
        }
        F_QUERY_PEER_TIMEOUT => {
            b.query_peer_timeout(d(&op.1));
        }
        F_QUERY_TIMEOUT => {
            b.query_timeout(d(&op.1));
        }
        F_REQUEST_RETRIES => {
            b.request_retries(n(&op.1) as u8);
        }
        F_SESSION_TIMEOUT => {
            b.session_timeout(d(&op.1));
        }
        F_SESSION_CACHE_CAPACITY => {
            b.session_cache_capacity(n(&op.1));
        }
        F_ENR_UPDATE => {
            b.disable_enr_update();
        }
        F_MAX_NODES_RESPONSE => {
            b.max_nodes_response(n(&op.1));
        }
        F_ENR_PEER_UPDATE_MIN => {
            b.enr_peer_update_min(n(&op.1));
        }
        F_QUERY_PARALLELISM => {
            b.query_parallelism(n(&op.1));
        }
        F_IP_LIMIT => {
            b.ip_limit();
        }
        F_INCOMING_BUCKET_LIMIT => {
            b.incoming_bucket_limit(n(&op.1));
        }
        F_TABLE_FILTER => {
            b.table_filter(table_filter_fn(n(&op.1) as u64));
        }
        F_PING_INTERVAL => {
            b.ping_interval(d(&op.1));
        }
        F_REPORT_DISCOVERED_PEERS => {
            b.disable_report_discovered_peers();
        }
        F_FILTER_RATE_LIMITER => {
            let r = match &op.1 {
                Val::R(r) => r.as_ref().map(make_limiter),
                _ => unreachable!(),
            };
            b.filter_rate_limiter(r);
        }
        F_FILTER_MAX_NODES_PER_IP => {
            b.filter_max_nodes_per_ip(o(&op.1).map(|x| x as usize));
        }
        F_FILTER_MAX_BANS_PER_IP => {
            b.filter_max_bans_per_ip(o(&op.1).map(|x| x as usize));
        }
        F_PERMIT_BAN_LIST => {
            let l = match &op.1 {
                Val::P(p) => make_list(p),
                _ => unreachable!(),
            };
            b.permit_ban_list(l);
        }
        F_BAN_DURATION => {
            b.ban_duration(o(&op.1).map(Duration::from_millis));
        }
        F_AUTO_NAT_LISTEN_DURATION => {
            b.auto_nat_listen_duration(o(&op.1).map(Duration::from_millis));
        }
        F_PROTOCOL_IDENTITY => {
            let (id, ver) = match &op.1 {
                Val::I(a, b) => (*a, *b),
                _ => unreachable!(),
            };
            let mut protocol_id = [0u8; 6];
            protocol_id.copy_from_slice(&id.to_be_bytes()[2..8]);
            let mut protocol_version = [0u8; 2];
            protocol_version.copy_from_slice(&ver.to_be_bytes()[6..8]);
            b.protocol_identity(ProtocolIdentity { protocol_id, protocol_version });
        }
        _ => unreachable!(),
    }
}

/// The argument of a setter: every field has its own range of recognisable values.
fn gen_arg(rng: &mut Rng, f: usize) -> Val {
    let opt = |rng: &mut Rng, lo: u64, hi: u64| if rng.chance(1, 4) { Val::O(None) } else { Val::O(Some(rng.range(lo, hi))) };
    match f {
        F_ENABLE_PACKET_FILTER | F_IP_LIMIT => Val::B(true),
        F_ENR_UPDATE | F_REPORT_DISCOVERED_PEERS => Val::B(false),
        F_REQUEST_TIMEOUT => Val::N(rng.range(100, 900)),
        F_QUERY_PEER_TIMEOUT => Val::N(rng.range(1100, 1900)),
        F_QUERY_TIMEOUT => Val::N(rng.range(2100, 9900)),
        F_SESSION_TIMEOUT => Val::N(1000 * rng.range(11, 99)),
        F_PING_INTERVAL => Val::N(1000 * rng.range(101, 199)),
        F_VOTE_DURATION => Val::N(1000 * rng.range(201, 299)),
        F_REQUEST_RETRIES => Val::N(rng.range(0, 5)),
        F_SESSION_CACHE_CAPACITY => Val::N(rng.range(2, 50)),
        F_MAX_NODES_RESPONSE => Val::N(rng.range(1, 40)),
        F_ENR_PEER_UPDATE_MIN => Val::N(if rng.chance(1, 12) { rng.range(0, 1) } else { rng.range(2, 12) }),
        F_QUERY_PARALLELISM => Val::N(rng.range(1, 9)),
        F_INCOMING_BUCKET_LIMIT => Val::N(if rng.chance(1, 14) { rng.range(17, 20) } else { rng.range(0, 16) }),
        F_TABLE_FILTER => Val::N(rng.range(1, 3)),
        F_FILTER_RATE_LIMITER => {
            if rng.chance(1, 3) {
                Val::R(None)
            } else {
                // n tokens every s seconds; tau (ns) is a multiple of n for every n below
                let q = |rng: &mut Rng| {
                    let n = *rng.pick(&[1u64, 2, 4, 5, 8, 10, 16, 20, 25]);
                    let tau = rng.range(1, 3) * 1_000_000_000;
                    (tau, tau / n)
                };
                let tot = q(rng);
                let node = if rng.chance(2, 3) { Some(q(rng)) } else { None };
                let ip = if rng.chance(2, 3) { Some(q(rng)) } else { None };
                Val::R(Some([
                    tot.0,
                    tot.1,
                    node.is_some() as u64,
                    node.map(|x| x.0).unwrap_or(0),
                    node.map(|x| x.1).unwrap_or(0),
                    ip.is_some() as u64,
                    ip.map(|x| x.0).unwrap_or(0),
                    ip.map(|x| x.1).unwrap_or(0),
                ]))
            }
        }
        F_FILTER_MAX_NODES_PER_IP => opt(rng, 51, 59),
        F_FILTER_MAX_BANS_PER_IP => opt(rng, 61, 69),
        F_PERMIT_BAN_LIST => {
            let mut p = [0u64; 6];
            for x in p.iter_mut() {
                *x = rng.range(0, 3);
            }
            Val::P(p)
        }
        F_BAN_DURATION => opt(rng, 301, 399).scale(1000),
        F_AUTO_NAT_LISTEN_DURATION => opt(rng, 401, 499).scale(1000),
        F_PROTOCOL_IDENTITY => {
            let id = rng.bytes(6);
            let ver = rng.bytes(2);
            Val::I(be(&id), be(&ver))
        }
        _ => unreachable!(),
    }
}
impl Val {
    fn scale(self, k: u64) -> Val {
        match self {
            Val::O(o) => Val::O(o.map(|x| x * k)),
            v => v,
        }
    }
}

fn gen_ops(rng: &mut Rng, focus: Option<&str>, thorough: bool) -> Vec<Op> {
    let max = if thorough { 20 } else { 12 };
    let n = rng.range(0, max);
    // the fields the focused property depends on are set more often
    let weights: Vec<u64> = FIELDS.iter().map(|f| if focus.map(|p| f.props.contains(&p)).unwrap_or(false) { 10 } else { 2 }).collect();
    (0..n)
        .map(|_| {
            let f = rng.weighted(&weights);
            (f, gen_arg(rng, f))
        })
        .collect()
}

// ------------------------------------------------------------------------------------------------
// one case

struct Failure {
    props: Vec<&'static str>,
    field: String,
    /// where on the path the value changed (part of the replay file's name)
    place: String,
    what: String,
    values: Vec<(String, String)>,
}

struct CaseOut {
    coq: String,
    failures: Vec<Failure>,
    hist: Hist,
    started: bool,
    panicked: bool,
    sample: J,
}

enum Attempt {
    Done(Box<CaseOut>),
    BindFailed,
}

/// What the application configured: its last word per field, or the documented default; the NAT
/// heuristic is off when address updates are off (documentation of `build`).
fn ledger(ops: &[Op]) -> Vec<Val> {
    let mut v = documented_defaults();
    for (f, a) in ops {
        v[*f] = a.clone();
    }
    if v[F_ENR_UPDATE] == Val::B(false) {
        v[F_AUTO_NAT_LISTEN_DURATION] = Val::O(None);
    }
    v
}

fn port_for(idx: u64, attempt: u64) -> u16 {
    let pid = std::process::id() as u64;
    (20000 + (pid * 131 + idx * 7 + attempt * 977) % 20000) as u16
}

async fn run_case(idx: u64, ops: &[Op], want_start: bool, attempt: u64) -> Attempt {
    let mut hist = Hist::default();
    let mut failures: Vec<Failure> = vec![];
    let port = port_for(idx, attempt);
    let mut enc_ops = Enc::new();
    for (f, a) in ops {
        enc_ops.n(*f as u64);
        for s in a.slots() {
            enc_ops.n(s);
        }
    }
    let ops_text: Vec<String> = ops.iter().map(op_text).collect();
    let finish = |observed: Enc, started: bool, panicked: bool, failures: Vec<Failure>, hist: Hist| {
        let coq = format!("({}, {}, {}, {})", idx, coq_bool(started), enc_ops.coq(), observed.coq());
        let sample = J::obj(vec![
            ("case", J::I(idx as i64)),
            ("setters", J::A(ops_text.iter().map(|s| J::s(s.clone())).collect())),
            ("started_on_sockets", J::B(started)),
            ("panicked", J::B(panicked)),
        ]);
        Attempt::Done(Box::new(CaseOut { coq, failures, hist, started, panicked, sample }))
    };

    // ---- the application: builder, setters, build
    let listen = ListenConfig::Ipv4 { ip: Ipv4Addr::LOCALHOST, port };
    let mut builder = ConfigBuilder::new(listen);
    for (k, op) in ops.iter().enumerate() {
        let r = catch(std::panic::AssertUnwindSafe(|| call_setter(&mut builder, op)));
        if r.is_err() {
            hist.add("glue:panic_in_a_setter");
            let documented = op.0 == F_ENR_PEER_UPDATE_MIN && matches!(op.1, Val::N(n) if n < 2);
            if !documented {
                failures.push(Failure {
                    props: FIELDS[op.0].props.to_vec(),
                    field: FIELDS[op.0].name.into(),
                    place: "setter".into(),
                    what: format!("the setter {} panicked", op_text(op)),
                    values: vec![],
                });
            }
            let mut e = Enc::new();
            e.n(0).n(k as u64);
            return finish(e, false, true, failures, hist);
        }
        if op.0 == F_ENR_PEER_UPDATE_MIN && matches!(op.1, Val::N(n) if n < 2) {
            failures.push(Failure {
                props: vec!["C17"],
                field: "enr_peer_update_min".into(),
                place: "setter".into(),
                what: format!("the setter {} was accepted (a quorum below 2 must be refused)", op_text(op)),
                values: vec![],
            });
        }
    }
    let expected = ledger(ops);
    let built = match catch(std::panic::AssertUnwindSafe(|| builder.build())) {
        Ok(c) => c,
        Err(_) => {
            hist.add("glue:panic_in_build");
            if !matches!(expected[F_INCOMING_BUCKET_LIMIT], Val::N(n) if n > 16) {
                failures.push(Failure {
                    props: ALL_PROPS.to_vec(),
                    field: "build".into(),
                    place: "build".into(),
                    what: "build() panicked although the incoming bucket limit is within the bucket size".into(),
                    values: vec![("incoming_bucket_limit configured".into(), expected[F_INCOMING_BUCKET_LIMIT].show())],
                });
            }
            let mut e = Enc::new();
            e.n(0).n(ops.len() as u64);
            return finish(e, false, true, failures, hist);
        }
    };
    if matches!(expected[F_INCOMING_BUCKET_LIMIT], Val::N(n) if n > 16) {
        failures.push(Failure {
            props: vec!["C07"],
            field: "incoming_bucket_limit".into(),
            place: "build".into(),
            what: "build() accepted an incoming bucket limit above the bucket size".into(),
            values: vec![("incoming_bucket_limit configured".into(), expected[F_INCOMING_BUCKET_LIMIT].show())],
        });
    }
    let snap_built = snapshot(&built);

    // ---- Discv5::new with a fresh key
    let key = CombinedKey::generate_secp256k1();
    let enr = Enr::builder().ip4(Ipv4Addr::LOCALHOST).udp4(port).build(&key).unwrap();
    let local_raw = enr.node_id().raw();
    let _ = discv5::verif::glue::take_seen();
    let mut disc = match Discv5::new(enr, key, built) {
        Ok(d) => d,
        Err(e) => panic!("Discv5::new: {}", e),
    };
    // the process-wide permit/ban list
    let global: Vec<u64> = discv5::verif::glue::permit_ban_counts().iter().map(|x| *x as u64).collect();
    // the routing table: connected incoming nodes into the farthest bucket until one is refused
    let p = pool();
    let key_in = |bucket_bit: u8, i: u8| {
        let mut raw = local_raw;
        raw[0] ^= bucket_bit;
        raw[31] = raw[31].wrapping_add(i + 1);
        Key::from(NodeId::new(&raw))
    };
    let mut table = disc.kbuckets();
    let mut accepted = 0u64;
    let mut reason = 0u64;
    for i in 0..17u8 {
        let st = NodeStatus { state: ConnectionState::Connected, direction: ConnectionDirection::Incoming };
        match table.insert_or_update(&key_in(0x80, i), p.spread[i as usize].clone(), st) {
            InsertResult::Inserted => accepted += 1,
            InsertResult::Failed(FailureReason::TooManyIncoming) => {
                reason = 1;
                break;
            }
            _ => {
                reason = 2;
                break;
            }
        }
    }
    // the /24 filters: three records of one network into the next bucket
    let mut table2 = disc.kbuckets();
    let mut ipf = 2u64;
    for i in 0..3u8 {
        let st = NodeStatus { state: ConnectionState::Disconnected, direction: ConnectionDirection::Outgoing };
        let r = table2.insert_or_update(&key_in(0x40, i), p.same24[i as usize].clone(), st);
        match (i, r) {
            (0, InsertResult::Inserted) | (1, InsertResult::Inserted) => {}
            (2, InsertResult::Inserted) => ipf = 0,
            (2, InsertResult::Failed(FailureReason::BucketFilter)) => ipf = 1,
            _ => break,
        }
    }

    // ---- Discv5::start on loopback sockets
    let mut seen_service: Option<Vec<Val>> = None;
    let mut seen_handler: Option<Vec<Val>> = None;
    let mut started = false;
    if want_start {
        let _ = discv5::verif::glue::take_seen();
        match disc.start().await {
            Ok(()) => {
                started = true;
                let seen = discv5::verif::glue::take_seen();
                let order: Vec<&str> = seen.iter().map(|(c, _)| *c).collect();
                if order != ["service", "handler"] {
                    failures.push(Failure {
                        props: ALL_PROPS.to_vec(),
                        field: "start".into(),
                        place: "start".into(),
                        what: format!("Discv5::start constructed {:?} instead of one service and one handler", order),
                        values: vec![],
                    });
                }
                for (c, cfg) in seen.iter() {
                    match *c {
                        "service" if seen_service.is_none() => seen_service = Some(snapshot(cfg)),
                        "handler" if seen_handler.is_none() => seen_handler = Some(snapshot(cfg)),
                        _ => {}
                    }
                }
                disc.shutdown();
                tokio::time::sleep(Duration::from_millis(3)).await;
            }
            Err(_) => {
                let _ = discv5::verif::glue::take_seen();
                drop(disc);
                tokio::time::sleep(Duration::from_millis(2)).await;
                return Attempt::BindFailed;
            }
        }
    }
    drop(disc);

    // ---- monitors: the value of every field along the path; each stage is compared with the one
    // before it, so that a failure names the step that changed the value
    let mut stages: Vec<(&str, &[Val])> = vec![("what the application configured", &expected), ("the Config returned by build()", &snap_built)];
    if let Some(s) = &seen_service {
        stages.push(("the Config handed to Service::spawn", s));
    }
    if let Some(s) = &seen_handler {
        stages.push(("the Config handed to Handler::spawn", s));
    }
    let all_values = |field: usize| -> Vec<(String, String)> { stages.iter().map(|(n, v)| (n.to_string(), v[field].show())).collect() };
    for f in 0..NFIELDS {
        for w in stages.windows(2) {
            if w[0].1[f] != w[1].1[f] {
                failures.push(Failure {
                    props: FIELDS[f].props.to_vec(),
                    field: FIELDS[f].name.into(),
                    place: w[1].0.split_whitespace().last().unwrap_or("").replace("::", "_").replace("()", ""),
                    what: format!("{} differs between {} and {}", FIELDS[f].name, w[0].0, w[1].0),
                    values: all_values(f),
                });
            }
        }
    }
    // what Discv5::new made of the built configuration
    let probe = |field: usize, place: &str, tag: &str, got: &Val| -> Option<Failure> {
        if *got != snap_built[field] {
            let mut values = all_values(field);
            values.push((place.to_string(), got.show()));
            Some(Failure {
                props: FIELDS[field].props.to_vec(),
                field: FIELDS[field].name.into(),
                place: tag.into(),
                what: format!("{} differs between the Config handed to Discv5::new and {}", FIELDS[field].name, place),
                values,
            })
        } else {
            None
        }
    };
    failures.extend(probe(F_INCOMING_BUCKET_LIMIT, "the number of connected incoming nodes a bucket of the node's routing table accepts", "table", &Val::N(accepted)));
    if reason != 1 {
        failures.push(Failure {
            props: vec!["C07"],
            field: "incoming_bucket_limit".into(),
            place: "table_refusal".into(),
            what: "incoming_bucket_limit: the routing table's bucket did not refuse the first node beyond the configured limit with TooManyIncoming".into(),
            values: vec![("configured".into(), expected[F_INCOMING_BUCKET_LIMIT].show()), ("accepted".into(), accepted.to_string()), ("refusal".into(), if reason == 0 { "none".into() } else { "another reason".to_string() })],
        });
    }
    match ipf {
        0 => failures.extend(probe(F_IP_LIMIT, "the node's routing table (a bucket accepted a third record of one /24)", "table", &Val::B(false))),
        1 => failures.extend(probe(F_IP_LIMIT, "the node's routing table (a bucket refused a third record of one /24)", "table", &Val::B(true))),
        _ => failures.push(Failure {
            props: vec!["C16"],
            field: "ip_limit".into(),
            place: "table_probe".into(),
            what: "ip_limit: the /24 probe of the routing table was refused before the third record".into(),
            values: vec![],
        }),
    }
    let mut g6 = [0u64; 6];
    g6.copy_from_slice(&global);
    failures.extend(probe(F_PERMIT_BAN_LIST, "the process-wide permit/ban list after Discv5::new", "global_list", &Val::P(g6)));

    // ---- observations for the model
    let mut e = Enc::new();
    e.n(1);
    enc_snapshot(&snap_built, &mut e);
    e.n(accepted).n(reason).n(ipf);
    for x in &global {
        e.n(*x);
    }
    if started {
        e.n(1);
        enc_snapshot(seen_service.as_deref().unwrap_or(&[]), &mut e);
        enc_snapshot(seen_handler.as_deref().unwrap_or(&[]), &mut e);
    } else {
        e.n(0);
    }
    for (f, _) in ops {
        hist.add(&format!("glue:setter_{}", FIELDS[*f].name));
    }
    if started {
        hist.add("glue:cases_started_on_sockets");
    }
    finish(e, started, false, failures, hist)
}

// ------------------------------------------------------------------------------------------------

pub fn main(args: &[String]) {
    let o = parse_opts(args);
    let mut only: Option<u64> = None;
    let mut focus: Option<String> = None;
    let mut i = 0;
    while i < o.rest.len() {
        match o.rest[i].as_str() {
            "--only" => {
                only = Some(o.rest[i + 1].parse().unwrap());
                i += 1;
            }
            "--focus" => {
                focus = Some(o.rest[i + 1].to_uppercase());
                i += 1;
            }
            _ => {}
        }
        i += 1;
    }
    if let Some(f) = &focus {
        if !ALL_PROPS.contains(&f.as_str()) {
            eprintln!("glue: no configuration parameter is attributed to {}", f);
            std::process::exit(2);
        }
    }
    let mut sum = Summary::new("glue");
    let range: Vec<u64> = match only {
        Some(x) => vec![x],
        None => (0..o.cases).collect(),
    };
    // the table-only properties do not need the sockets in every case
    let always_start = matches!(focus.as_deref(), Some(p) if p != "C07" && p != "C16");
    let rt = tokio::runtime::Builder::new_current_thread().enable_all().build().unwrap();
    let mut w = CaseWriter::new(&o.out, "glue_cases", HEADER, "gcase", "check_all", 64);
    let mut seen_sig: BTreeSet<String> = BTreeSet::new();
    let mut distinct: BTreeSet<Vec<usize>> = BTreeSet::new();
    for k in ["glue:cases_started_on_sockets", "glue:panic_in_a_setter", "glue:panic_in_build", "glue:bind_retries", "glue:cases_not_started_after_bind_failures"] {
        sum.hist.addn(k, 0);
    }
    for idx in range {
        let mut rng = Rng::new(
            o.seed
                .wrapping_mul(0x9E3779B97F4A7C15)
                .wrapping_add(idx.wrapping_mul(0xD1B54A32D192ED03))
                .wrapping_add(0x61C5),
        );
        let want_start = rng.chance(1, 2) || always_start;
        let ops = gen_ops(&mut rng, focus.as_deref(), o.thorough);
        let mut attempt = 0u64;
        let r = loop {
            // after five occupied ports the case runs without sockets
            let ws = want_start && attempt < 5;
            if want_start && !ws {
                sum.hist.add("glue:cases_not_started_after_bind_failures");
            }
            match rt.block_on(run_case(idx, &ops, ws, attempt)) {
                Attempt::Done(r) => break *r,
                Attempt::BindFailed => {
                    sum.hist.add("glue:bind_retries");
                    attempt += 1;
                }
            }
        };
        sum.evaluations += 1;
        sum.steps += ops.len() as u64;
        let mut kinds: Vec<usize> = ops.iter().map(|(f, _)| *f).collect();
        kinds.sort();
        kinds.dedup();
        if !ops.is_empty() && distinct.insert(kinds) {
            sum.distinct_nontrivial += 1;
        }
        for (key, v) in &r.hist.0 {
            sum.hist.addn(key, *v);
        }
        sum.hist.add(&format!("glue:setters_per_case_{:02}", ops.len()));
        let _ = (r.started, r.panicked);
        if sum.samples.len() < 2 && (ops.len() >= 3 || only.is_some()) {
            sum.samples.push(r.sample.clone());
        }
        for fl in &r.failures {
            for prop in &fl.props {
                if let Some(f) = &focus {
                    if f != prop {
                        sum.hist.add(&format!("glue:monitor_failure_of_another_property_{}", prop));
                        continue;
                    }
                }
                let sig = format!("{}:configuration plumbing: {}", prop, fl.what);
                if seen_sig.insert(sig.clone()) || only.is_some() {
                    let file = o.out.join(format!("failure_{}_glue_{}_{}_{}.json", prop, fl.field, fl.place, idx));
                    let j = J::obj(vec![
                        ("component", J::s("glue")),
                        ("property", J::s(*prop)),
                        ("seed", J::I(o.seed as i64)),
                        ("case", J::I(idx as i64)),
                        ("thorough", J::B(o.thorough)),
                        ("field", J::s(fl.field.clone())),
                        ("what", J::s(fl.what.clone())),
                        ("values", J::O(fl.values.iter().map(|(k, v)| (k.clone(), J::s(v.clone()))).collect())),
                        ("setters", J::A(ops.iter().map(|op| J::s(op_text(op))).collect())),
                        ("case_text", J::s(r.coq.clone())),
                    ]);
                    std::fs::write(&file, j.render()).unwrap();
                    let desc = format!(
                        "{} [{}] after the setters [{}]",
                        fl.what,
                        fl.values.iter().map(|(k, v)| format!("{}: {}", k, v)).collect::<Vec<_>>().join("; "),
                        ops.iter().map(op_text).collect::<Vec<_>>().join(", ")
                    );
                    sum.monitor_failures.push((sig, desc, file.to_string_lossy().to_string()));
                }
            }
        }
        w.push(r.coq);
    }
    w.flush();
    drop(rt);
    sum.case_files = w.files.clone();
    sum.rule = "configuration plumbing through the public API: 0..12 (thorough: 0..20) ConfigBuilder setter calls per case, every setter of the builder but `executor` (the ones the focused property depends on five times as often), arguments from per-field ranges that do not overlap (request_timeout 100..900 ms, query_peer_timeout 1100..1900 ms, query_timeout 2100..9900 ms, session_timeout 11..99 s, ping_interval 101..199 s, vote_duration 201..299 s, ban_duration None / 301..399 s, auto_nat_listen_duration None / 401..499 s, session_cache_capacity 2..50, max_nodes_response 1..40, incoming_bucket_limit 0..16 and 1/14 17..20 (build panics), enr_peer_update_min 2..12 and 1/12 0..1 (setter panics), query_parallelism 1..9, request_retries 0..5, filter_max_nodes_per_ip None / 51..59, filter_max_bans_per_ip None / 61..69, permit/ban lists with 0..3 entries of each of the six kinds, random protocol identities, three table filters told apart by two probe records, no rate limiter or a builder-made one with random quotas); then build(), Discv5::new with a fresh key, probes of the node's routing table (connected incoming nodes into one bucket until TooManyIncoming; three records of one /24 into one bucket) and of the process-wide permit/ban list; half of the cases (all cases unless the focus is C07 or C16) are started on loopback UDP sockets through Discv5::start, where the real Service::spawn and Handler::spawn record the Config they are handed; monitor: configured last (or documented default) == built == seen by the service == seen by the handler == probes, per field; non-trivial = at least one setter; distinct = new set of setter kinds".to_string();
    sum.write(&o.out);
    println!(
        "glue{}: {} cases, {} setter calls, {} distinct non-trivial, {} monitor failure signatures",
        focus.as_ref().map(|f| format!("/{}", f)).unwrap_or_default(),
        sum.evaluations,
        sum.steps,
        sum.distinct_nontrivial,
        sum.monitor_failures.len()
    );
}
