//! Verification harness: drives the real discv5 implementation, runs direct property monitors and
//! writes Coq case files for the correspondence with the models in /verif/coq.
mod common;
mod kb;

fn main() {
    let args: Vec<String> = std::env::args().skip(1).collect();
    if args.is_empty() {
        eprintln!("usage: verif-harness <component> [options]");
        std::process::exit(2);
    }
    // Panics inside the implementation are caught per operation; keep the default hook quiet.
    std::panic::set_hook(Box::new(|_| {}));
    match args[0].as_str() {
        "kb" => kb::main(&args[1..]),
        x => {
            eprintln!("unknown component {}", x);
            std::process::exit(2);
        }
    }
}
