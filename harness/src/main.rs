//! Verification harness: drives the real discv5 implementation, runs direct property monitors and
//! writes Coq case files for the correspondence with the models in /verif/coq.
mod common;
mod hnd;
mod kb;
mod svcq;
mod pkt;
mod talk;
mod vote;
mod lru;
mod limiter;
mod rpcc;
mod query;
mod service;
mod glue;
mod e2e;

fn main() {
    let args: Vec<String> = std::env::args().skip(1).collect();
    if args.is_empty() {
        eprintln!("usage: verif-harness <component> [options]");
        std::process::exit(2);
    }
    // Panics inside the implementation are caught per operation; keep the default hook quiet.
    if std::env::var("VERIF_DEBUG").is_err() {
        std::panic::set_hook(Box::new(|_| {}));
    }
    if std::env::var("VERIF_LOG").is_ok() {
        let _ = tracing_subscriber::fmt().with_env_filter(tracing_subscriber::EnvFilter::new(std::env::var("VERIF_LOG").unwrap())).with_writer(std::io::stderr).try_init();
    } else {
        // log statements are code: with every level enabled (written to a sink) the field expressions
        // of the crate's trace!/debug!/warn! lines are evaluated on every path the harness drives
        let _ = tracing_subscriber::fmt().with_max_level(tracing::Level::TRACE).with_writer(std::io::sink).try_init();
    }
    match args[0].as_str() {
        "hnd" => hnd::main(&args[1..]),
        "kb" => kb::main(&args[1..]),
        "svcq" => svcq::main(&args[1..]),
        "pkt" => pkt::main(&args[1..]),
        "talk" => talk::main(&args[1..]),
        "vote" => vote::main(&args[1..]),
        "lru" => lru::main(&args[1..]),
        "limiter" => limiter::main(&args[1..]),
        "rpcc" => rpcc::main(&args[1..]),
        "query" => query::main(&args[1..]),
        "service" => service::main(&args[1..]),
        "glue" => glue::main(&args[1..]),
        "e2e" => e2e::main(&args[1..]),
        x => {
            eprintln!("unknown component {}", x);
            std::process::exit(2);
        }
    }
}
