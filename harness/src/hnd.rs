//! Session handler (C01, C02, C03, C04, C13, C19): the real `Handler` on a virtual wire, a scripted
//! peer/attacker toolkit built from the crate's own crypto, direct property monitors, and the
//! Coq case files for the correspondence with Model/Handler.v.
use crate::common::*;
use discv5::enr::{CombinedKey, NodeId};
use discv5::verif::handler::*;
use discv5::{ConfigBuilder, Enr, ListenConfig, ProtocolIdentity};
use parking_lot::RwLock;
use std::collections::{BTreeMap, BTreeSet, HashMap};
use std::net::{IpAddr, Ipv4Addr, SocketAddr};
use std::num::NonZeroU16;
use std::sync::Arc;
use std::time::Duration;

const GRID_MS: u64 = 5;
const FORCE: usize = 1 << 20;
const TIMEOUT_MS: u64 = 1003;

// ------------------------------------------------------------------------------------------------
// Abstract terms (mirror of Model/Handler.v)

#[derive(Clone, PartialEq, Eq, Debug, Hash, PartialOrd, Ord)]
pub struct KeyT {
    eph: u64,
    st: u64,
    cd: u64,
    ida: u64,
    idb: u64,
    half: bool,
}
#[derive(Clone, PartialEq, Eq, Debug)]
pub struct AEnr {
    id: u64,
    seq: u64,
    ip4: Option<u64>,
    ip6: Option<u64>,
}
#[derive(Clone, PartialEq, Eq, Debug)]
pub enum ARBody {
    Nodes(u64, Vec<AEnr>),
    Other(u64),
}
#[derive(Clone, PartialEq, Eq, Debug)]
pub enum AMsg {
    Req(u64, u64),
    Resp(u64, ARBody),
    Bad(u64),
}
type ANonce = (u64, u64);
#[derive(Clone, PartialEq, Eq, Debug)]
pub enum ACt {
    Enc(KeyT, ANonce, AMsg, u64),
    Junk(u64),
}
#[derive(Clone, PartialEq, Eq, Debug)]
pub enum ASig {
    Sig(u64, u64, u64, u64),
    Bad(u64),
}
#[derive(Clone, PartialEq, Eq, Debug)]
pub enum APkt {
    Msg { src: u64, n: ANonce, aad: u64, ct: ACt },
    Who { n: ANonce, idn: u64, seq: u64, cd: u64 },
    Hs { src: u64, n: ANonce, aad: u64, sg: ASig, eph: u64, eph_ok: bool, rec: Option<AEnr>, ct: ACt },
}
#[derive(Clone, PartialEq, Eq, Debug)]
pub enum AOut {
    Established(AEnr, u64, bool),
    Request((u64, u64), u64, u64),
    Response((u64, u64), u64, ARBody),
    WhoAreYou((u64, u64), ANonce),
    RequestFailed(u64, u64),
    Unverifiable(AEnr, u64, u64),
    Expired(Vec<(u64, u64)>),
}

fn ob(o: &Option<u64>) -> String {
    coq_opt(o.map(|x| x.to_string()))
}
impl AEnr {
    fn coq(&self) -> String {
        format!("(E {} {} {} {})", self.id, self.seq, ob(&self.ip4), ob(&self.ip6))
    }
    fn enc(&self, e: &mut Enc) {
        e.n(self.id).n(self.seq);
        for o in [&self.ip4, &self.ip6] {
            match o {
                Some(x) => {
                    e.n(1).n(*x);
                }
                None => {
                    e.n(0);
                }
            }
        }
    }
}
fn coq_oenr(o: &Option<AEnr>) -> String {
    coq_opt(o.as_ref().map(|e| e.coq()))
}
impl KeyT {
    fn coq(&self) -> String {
        format!("(Ky {} {} {} {} {} {})", self.eph, self.st, self.cd, self.ida, self.idb, coq_bool(self.half))
    }
    fn enc(&self, e: &mut Enc) {
        e.n(self.eph).n(self.st).n(self.cd).n(self.ida).n(self.idb).b(self.half);
    }
}
impl ARBody {
    fn coq(&self) -> String {
        match self {
            ARBody::Nodes(t, l) => format!("(RNodes {} {})", t, coq_list(&l.iter().map(|e| e.coq()).collect::<Vec<_>>())),
            ARBody::Other(x) => format!("(ROther {})", x),
        }
    }
    fn enc(&self, e: &mut Enc) {
        match self {
            ARBody::Nodes(t, l) => {
                e.n(0).n(*t).n(l.len() as u64);
                for x in l {
                    x.enc(e);
                }
            }
            ARBody::Other(x) => {
                e.n(1).n(*x);
            }
        }
    }
}
impl AMsg {
    fn coq(&self) -> String {
        match self {
            AMsg::Req(r, b) => format!("(MReq {} {})", r, b),
            AMsg::Resp(r, b) => format!("(MResp {} {})", r, b.coq()),
            AMsg::Bad(j) => format!("(MBad {})", j),
        }
    }
    fn enc(&self, e: &mut Enc) {
        match self {
            AMsg::Req(r, b) => {
                e.n(0).n(*r).n(*b);
            }
            AMsg::Resp(r, b) => {
                e.n(1).n(*r);
                b.enc(e);
            }
            AMsg::Bad(j) => {
                e.n(2).n(*j);
            }
        }
    }
}
fn coq_nonce(n: &ANonce) -> String {
    format!("({}, {})", n.0, n.1)
}
impl ACt {
    fn coq(&self) -> String {
        match self {
            ACt::Enc(k, n, m, a) => format!("(CEnc {} {} {} {})", k.coq(), coq_nonce(n), m.coq(), a),
            ACt::Junk(j) => format!("(CJunk {})", j),
        }
    }
    fn enc(&self, e: &mut Enc) {
        match self {
            ACt::Enc(k, n, m, a) => {
                e.n(1);
                k.enc(e);
                e.n(n.0).n(n.1);
                m.enc(e);
                e.n(*a);
            }
            ACt::Junk(j) => {
                e.n(0).n(*j);
            }
        }
    }
}
impl ASig {
    fn coq(&self) -> String {
        match self {
            ASig::Sig(k, cd, eph, dst) => format!("(Sig {} {} {} {})", k, cd, eph, dst),
            ASig::Bad(j) => format!("(BadSig {})", j),
        }
    }
    fn enc(&self, e: &mut Enc) {
        match self {
            ASig::Sig(k, cd, eph, dst) => {
                e.n(1).n(*k).n(*cd).n(*eph).n(*dst);
            }
            ASig::Bad(j) => {
                e.n(0).n(*j);
            }
        }
    }
}
impl APkt {
    fn coq(&self) -> String {
        match self {
            APkt::Msg { src, n, aad, ct } => format!("(PMsg {} {} {} {})", src, coq_nonce(n), aad, ct.coq()),
            APkt::Who { n, idn, seq, cd } => format!("(PWho {} {} {} {})", coq_nonce(n), idn, seq, cd),
            APkt::Hs { src, n, aad, sg, eph, eph_ok, rec, ct } => format!(
                "(PHs {} {} {} {} {} {} {} {})",
                src,
                coq_nonce(n),
                aad,
                sg.coq(),
                eph,
                coq_bool(*eph_ok),
                coq_oenr(rec),
                ct.coq()
            ),
        }
    }
    fn enc(&self, e: &mut Enc) {
        match self {
            APkt::Msg { src, n, aad, ct } => {
                e.n(0).n(*src).n(n.0).n(n.1).n(*aad);
                ct.enc(e);
            }
            APkt::Who { n, idn, seq, cd } => {
                e.n(1).n(n.0).n(n.1).n(*idn).n(*seq).n(*cd);
            }
            APkt::Hs { src, n, aad, sg, eph, eph_ok, rec, ct } => {
                e.n(2).n(*src).n(n.0).n(n.1).n(*aad);
                sg.enc(e);
                e.n(*eph).b(*eph_ok);
                match rec {
                    Some(r) => {
                        e.n(1);
                        r.enc(e);
                    }
                    None => {
                        e.n(0);
                    }
                }
                ct.enc(e);
            }
        }
    }
}
impl AOut {
    fn enc(&self, e: &mut Enc) {
        match self {
            AOut::Established(r, a, inc) => {
                e.n(0);
                r.enc(e);
                e.n(*a).b(*inc);
            }
            AOut::Request(na, r, b) => {
                e.n(1).n(na.0).n(na.1).n(*r).n(*b);
            }
            AOut::Response(na, r, b) => {
                e.n(2).n(na.0).n(na.1).n(*r);
                b.enc(e);
            }
            AOut::WhoAreYou(na, n) => {
                e.n(3).n(na.0).n(na.1).n(n.0).n(n.1);
            }
            AOut::RequestFailed(r, err) => {
                e.n(4).n(*r).n(*err);
            }
            AOut::Unverifiable(r, a, i) => {
                e.n(5);
                r.enc(e);
                e.n(*a).n(*i);
            }
            AOut::Expired(l) => {
                e.n(6).n(l.len() as u64);
                for (i, a) in l {
                    e.n(*i).n(*a);
                }
            }
        }
    }
}

// ------------------------------------------------------------------------------------------------
// Interning

#[derive(Default)]
pub struct Interner {
    map: HashMap<(char, Vec<u8>), u64>,
    next: HashMap<char, u64>,
}
impl Interner {
    fn get(&mut self, tag: char, b: &[u8]) -> u64 {
        if let Some(x) = self.map.get(&(tag, b.to_vec())) {
            return *x;
        }
        let n = self.next.entry(tag).or_insert(1);
        let v = *n;
        *n += 1;
        self.map.insert((tag, b.to_vec()), v);
        v
    }
    fn preset(&mut self, tag: char, b: &[u8], v: u64) {
        self.map.insert((tag, b.to_vec()), v);
    }
    fn addr(&mut self, a: &SocketAddr) -> u64 {
        let k = self.get('a', a.to_string().as_bytes());
        2 * k + if a.is_ipv6() { 1 } else { 0 }
    }
    fn id(&mut self, i: &NodeId) -> u64 {
        self.get('i', &i.raw())
    }
    fn nonce(&mut self, n: &MessageNonce) -> ANonce {
        let c = u32::from_be_bytes([n[0], n[1], n[2], n[3]]) as u64;
        (c, self.get('n', &n[4..]))
    }
    fn rid(&mut self, r: &RequestId) -> u64 {
        self.get('r', &r.0)
    }
    fn aad(&mut self, a: &[u8]) -> u64 {
        self.get('c', a)
    }
    fn eph(&mut self, e: &[u8]) -> u64 {
        self.get('e', e)
    }
    fn enr(&mut self, e: &Enr) -> AEnr {
        AEnr {
            id: self.id(&e.node_id()),
            seq: e.seq(),
            ip4: e.udp4_socket().map(|s| self.addr(&SocketAddr::V4(s))),
            ip6: e.udp6_socket().map(|s| self.addr(&SocketAddr::V6(s))),
        }
    }
    fn body(&mut self, b: &RequestBody) -> u64 {
        let bytes = Request { id: RequestId(vec![]), body: b.clone() }.encode();
        self.get('b', &bytes)
    }
    fn rbody(&mut self, b: &ResponseBody) -> ARBody {
        match b {
            ResponseBody::Nodes { total, nodes } => ARBody::Nodes(*total, nodes.iter().map(|e| self.enr(e)).collect()),
            other => {
                let bytes = Response { id: RequestId(vec![]), body: other.clone() }.encode();
                ARBody::Other(self.get('o', &bytes))
            }
        }
    }
    fn msg(&mut self, plaintext: &[u8]) -> AMsg {
        match Message::decode(plaintext) {
            Ok(Message::Request(r)) => AMsg::Req(self.rid(&r.id), self.body(&r.body)),
            Ok(Message::Response(r)) => AMsg::Resp(self.rid(&r.id), self.rbody(&r.body)),
            Err(_) => AMsg::Bad(self.get('j', plaintext)),
        }
    }
}

// ------------------------------------------------------------------------------------------------
// World

pub struct Peer {
    key: CombinedKey,
    id: NodeId,
    addr: SocketAddr,
    enrs: Vec<Enr>, // increasing seq; variants with / without / mismatching address
    /// keys this peer shares (or believes to share) with the local node, most recent last:
    /// (key the peer encrypts with, key the peer decrypts with)
    keys: Vec<([u8; 16], [u8; 16])>,
}

pub struct OutReq {
    peer: usize,
    rid: u64,
    rid_bytes: Vec<u8>,
    external: bool,
    with_enr: bool,
    nonce: MessageNonce, // nonce of the latest packet carrying it
    first_tx: u64,
    answered: bool,
    terminal: u32,
    body: RequestBody,
    tx_per_key: BTreeMap<Option<KeyT>, u32>,
    responses_seen: u64,
    first_total: u64,
}

pub struct World {
    pid: ProtocolIdentity,
    local_key: CombinedKey,
    local_id: NodeId,
    local_enr: Enr,
    local_addr: SocketAddr,
    peers: Vec<Peer>,
    it: Interner,
    keys: Vec<([u8; 16], KeyT)>,
    ct_terms: HashMap<Vec<u8>, ACt>,
    sig_terms: HashMap<Vec<u8>, ASig>,
    cds: Vec<Vec<u8>>, // challenge data of every WHOAREYOU seen (either direction)
    now: u64,
    // ledgers for the monitors
    reqs: Vec<OutReq>,
    /// WHOAREYOU packets the local node has sent and that are not answered/expired: (peer, cd bytes, nonce, sent at)
    ttl_ms: u64,
    last_touch: BTreeMap<u64, u64>,
    /// the application may reuse the id of a request in flight (focus c19dup)
    dup_ids: bool,
    /// key term of the peer request injected last (cleared when used)
    last_req_key: Option<KeyT>,
    next_req_key: Option<KeyT>,
    /// the local record as the handler holds it (the application may update it while the node runs)
    local_enr_shared: Option<Arc<RwLock<Enr>>>,
    /// random (unscripted) requests of peers may be sealed under junk keys
    junk_keys: bool,
    /// the next request of a peer is sealed under this junk key (0 = all zero, 1 = all ones, 2 = one bit off)
    force_junk: Option<u8>,
    /// source address override for the next answer (an answer presented from another address)
    answer_src: Option<SocketAddr>,
    /// sequence number of the record the application last supplied for a peer (who-are-you answer)
    known_seq: BTreeMap<(usize, SocketAddr), u64>,
    out_challenges: Vec<(usize, Vec<u8>, MessageNonce, u64, SocketAddr)>,
    /// challenges whose timer has certainly run out (the live ledger over-approximates)
    expired_challenges: Vec<(usize, Vec<u8>, MessageNonce, u64, SocketAddr)>,
    consumed_cds: BTreeSet<Vec<u8>>,
    pending_wru: Vec<(WhoAreYouRef, usize)>,
    /// requests handed to the application: (from, id, peer, index of the step that delivered it)
    pending_app_reqs: Vec<(NodeAddress, RequestId, usize, usize)>,
    recorded: Vec<(SocketAddr, Vec<u8>, &'static str, usize)>, // src, datagram, kind, maker peer
    nonces_seen: HashMap<(KeyT, ANonce), Vec<u8>>,
    handshakes_per_request: BTreeMap<u64, u32>,
    idnonces_seen: BTreeSet<u64>,
    failures: Vec<(String, String)>,
    hist: Hist,
    retries: u8,
    /// addresses to which a random packet was sent that the harness could not attribute to a
    /// request it knows (an internal request sent without a session): the per-step exemption
    /// bound is not evaluated for them
    unattributed: BTreeSet<SocketAddr>,
    capacity: usize,
}

fn mk_enr(key: &CombinedKey, seq: u64, sock: Option<SocketAddr>) -> Enr {
    let mut b = Enr::builder();
    b.seq(seq);
    match sock {
        Some(SocketAddr::V4(s)) => {
            b.ip4(*s.ip());
            b.udp4(s.port());
        }
        Some(SocketAddr::V6(s)) => {
            b.ip6(*s.ip());
            b.udp6(s.port());
        }
        None => {}
    }
    b.build(key).unwrap()
}

impl World {
    fn new(rng: &mut Rng, npeers: usize, retries: u8) -> World {
        let local_key = CombinedKey::generate_secp256k1();
        let local_addr: SocketAddr = "10.1.0.1:9000".parse().unwrap();
        let local_enr = mk_enr(&local_key, 3, Some(local_addr));
        let mut it = Interner::default();
        // convention of the model: the internal FINDNODE [0] has body 0
        let fbytes = Request { id: RequestId(vec![]), body: RequestBody::FindNode { distances: vec![0] } }.encode();
        it.preset('b', &fbytes, 0);
        let mut peers = vec![];
        for i in 0..npeers {
            let key = CombinedKey::generate_secp256k1();
            let v6 = i + 1 == npeers && rng.chance(1, 2);
            let addr: SocketAddr = if v6 { format!("[2001:db8::{}]:{}", i + 1, 9000 + i).parse().unwrap() } else { format!("10.2.0.{}:{}", i + 1, 9000 + i).parse().unwrap() };
            // the address a stale/false record advertises: another host, or the same host with another port
            let wrong: SocketAddr = if rng.chance(1, 2) {
                SocketAddr::new(addr.ip(), addr.port() + 100)
            } else if v6 {
                format!("[2001:db8:9::{}]:{}", i + 1, 9100 + i).parse().unwrap()
            } else {
                format!("10.9.9.{}:{}", i + 1, 9100 + i).parse().unwrap()
            };
            let e0 = mk_enr(&key, 1, Some(addr));
            let mut enrs = match rng.below(4) {
                0 => vec![e0, mk_enr(&key, 2, None), mk_enr(&key, 5, Some(addr))],
                1 => vec![e0, mk_enr(&key, 2, Some(wrong)), mk_enr(&key, 7, Some(addr))],
                _ => vec![e0, mk_enr(&key, 2, Some(addr)), mk_enr(&key, 4, Some(addr))],
            };
            // the newest record advertises another address: a correctly signed handshake with it
            // is reported as unverifiable
            enrs.push(mk_enr(&key, 9, Some(wrong)));
            peers.push(Peer { id: enrs[0].node_id(), key, addr, enrs, keys: vec![] });
        }
        // a node whose record is signed with an Ed25519 key: nobody can prove to be it (the id
        // signature scheme only supports secp256k1), whatever bytes are presented as a signature
        {
            let i = npeers;
            let key = CombinedKey::generate_ed25519();
            let addr: SocketAddr = format!("10.2.0.{}:{}", i + 1, 9000 + i).parse().unwrap();
            let enrs = vec![mk_enr(&key, 1, Some(addr)), mk_enr(&key, 2, Some(addr)), mk_enr(&key, 4, Some(addr)), mk_enr(&key, 9, Some(addr))];
            peers.push(Peer { id: enrs[0].node_id(), key, addr, enrs, keys: vec![] });
        }
        World {
            pid: ProtocolIdentity::default(),
            local_id: local_enr.node_id(),
            local_key,
            local_enr,
            local_addr,
            peers,
            it,
            keys: vec![],
            ct_terms: HashMap::new(),
            sig_terms: HashMap::new(),
            cds: vec![],
            now: 0,
            reqs: vec![],
            ttl_ms: 86_400_000,
            last_touch: BTreeMap::new(),
            dup_ids: false,
            last_req_key: None,
            next_req_key: None,
            local_enr_shared: None,
            junk_keys: false,
            force_junk: None,
            answer_src: None,
            known_seq: BTreeMap::new(),
            out_challenges: vec![],
            expired_challenges: vec![],
            consumed_cds: BTreeSet::new(),
            pending_wru: vec![],
            pending_app_reqs: vec![],
            recorded: vec![],
            nonces_seen: HashMap::new(),
            handshakes_per_request: BTreeMap::new(),
            idnonces_seen: BTreeSet::new(),
            failures: vec![],
            hist: Hist::default(),
            retries,
            unattributed: BTreeSet::new(),
            capacity: usize::MAX,
        }
    }

    fn fail(&mut self, prop: &str, what: String) {
        self.failures.push((prop.to_string(), what));
    }

    fn register_key(&mut self, bytes: [u8; 16], t: KeyT) {
        if !self.keys.iter().any(|(b, _)| b == &bytes) {
            self.keys.push((bytes, t));
        }
    }

    /// The term of a ciphertext: registered at construction, else by trial decryption under the
    /// packet's own nonce and authenticated data, else junk.
    fn ct_term(&mut self, ct: &[u8], nonce: &MessageNonce, aad: &[u8]) -> ACt {
        if let Some(t) = self.ct_terms.get(ct) {
            return t.clone();
        }
        for (kb, kt) in self.keys.clone() {
            if let Some(pt) = toolkit_decrypt(&kb, *nonce, ct, aad) {
                let m = self.it.msg(&pt);
                let t = ACt::Enc(kt, self.it.nonce(nonce), m, self.it.aad(aad));
                self.ct_terms.insert(ct.to_vec(), t.clone());
                return t;
            }
        }
        ACt::Junk(self.it.aad(aad))
    }

    /// Abstract term of a datagram addressed to `dst`; None if it does not decode.
    fn abstract_datagram(&mut self, dst: &NodeId, data: &[u8]) -> Option<APkt> {
        let (p, aad) = wire_decode(dst, self.pid, data).ok()?;
        let n = self.it.nonce(&p.nonce);
        let aad_id = self.it.aad(&aad);
        Some(match &p.kind {
            PacketKind::Message { src_id } => {
                let ct = self.ct_term(&p.message, &p.nonce, &aad);
                APkt::Msg { src: self.it.id(src_id), n, aad: aad_id, ct }
            }
            PacketKind::WhoAreYou { id_nonce, enr_seq } => {
                if !self.cds.contains(&aad) {
                    self.cds.push(aad.clone());
                }
                APkt::Who { n, idn: self.it.get('d', id_nonce), seq: *enr_seq, cd: aad_id }
            }
            PacketKind::Handshake { src_id, id_nonce_sig, ephem_pubkey, enr_record } => {
                let eph = self.it.eph(ephem_pubkey);
                // is the ephemeral key a valid curve point?
                let eph_ok = toolkit_derive_keys_from_pubkey(&self.local_key, &self.local_id, src_id, &[0u8; 63], ephem_pubkey).is_some();
                let sg = match self.sig_terms.get(id_nonce_sig) {
                    Some(s) => s.clone(),
                    None => {
                        // a signature made by the local handler: identify what it signs
                        let mut found = None;
                        let local_pk = self.local_enr.public_key();
                        for cd in self.cds.clone() {
                            if toolkit_verify_nonce(&local_pk, ephem_pubkey, &cd, dst, id_nonce_sig) {
                                found = Some(ASig::Sig(self.it.id(&self.local_id.clone()), self.it.aad(&cd), eph, self.it.id(dst)));
                                // the recipient derives the session keys
                                if let Some(pi) = self.peers.iter().position(|p| &p.id == dst) {
                                    if let Some((ik, rk)) = toolkit_derive_keys_from_pubkey(&self.peers[pi].key, dst, &self.local_id, &cd, ephem_pubkey) {
                                        let (l, d) = (self.it.id(&self.local_id.clone()), self.it.id(dst));
                                        let cdid = self.it.aad(&cd);
                                        self.register_key(ik, KeyT { eph, st: d, cd: cdid, ida: l, idb: d, half: false });
                                        self.register_key(rk, KeyT { eph, st: d, cd: cdid, ida: l, idb: d, half: true });
                                        // the peer encrypts with the recipient key, decrypts with the initiator key
                                        self.peers[pi].keys.push((rk, ik));
                                    }
                                }
                                break;
                            }
                        }
                        let s = found.unwrap_or(ASig::Bad(self.it.get('s', id_nonce_sig)));
                        self.sig_terms.insert(id_nonce_sig.clone(), s.clone());
                        s
                    }
                };
                let ct = self.ct_term(&p.message, &p.nonce, &aad);
                APkt::Hs { src: self.it.id(src_id), n, aad: aad_id, sg, eph, eph_ok, rec: enr_record.as_ref().map(|e| self.it.enr(e)), ct }
            }
        })
    }

    fn abstract_out(&mut self, o: &HandlerOut) -> Option<AOut> {
        Some(match o {
            HandlerOut::Established(enr, a, d) => AOut::Established(self.it.enr(enr), self.it.addr(a), matches!(d, discv5::ConnectionDirection::Incoming)),
            HandlerOut::Request(na, r) => AOut::Request((self.it.id(&na.node_id), self.it.addr(&na.socket_addr)), self.it.rid(&r.id), self.it.body(&r.body)),
            HandlerOut::Response(na, r) => AOut::Response((self.it.id(&na.node_id), self.it.addr(&na.socket_addr)), self.it.rid(&r.id), self.it.rbody(&r.body)),
            HandlerOut::WhoAreYou(w) => AOut::WhoAreYou((self.it.id(&w.0.node_id), self.it.addr(&w.0.socket_addr)), self.it.nonce(&whoareyou_ref_nonce(w))),
            HandlerOut::RequestFailed(id, err) => AOut::RequestFailed(
                self.it.rid(id),
                match err {
                    discv5::RequestError::Timeout => 0,
                    discv5::RequestError::InvalidRemotePacket => 1,
                    discv5::RequestError::InvalidRemoteEnr => 2,
                    discv5::RequestError::SelfRequest => 3,
                    _ => 99,
                },
            ),
            HandlerOut::UnverifiableEnr { enr, socket, node_id } => AOut::Unverifiable(self.it.enr(enr), self.it.addr(socket), self.it.id(node_id)),
            HandlerOut::UnrecognizedFrame(_) => return None,
            HandlerOut::ExpiredSessions(l) => AOut::Expired(l.iter().map(|na| (self.it.id(&na.node_id), self.it.addr(&na.socket_addr))).collect()),
        })
    }
}

/// Appends `k` bytes to the auth-data of a datagram (in the unmasked domain) and adjusts the
/// auth-data size field; the body is kept. `dst` is the id the datagram is masked for.
fn extend_authdata(datagram: &[u8], dst: &NodeId, k: usize, rng: &mut Rng) -> Option<Vec<u8>> {
    use aes::cipher::{KeyIvInit, StreamCipher};
    type Aes128Ctr = ctr::Ctr64BE<aes::Aes128>;
    if datagram.len() < 16 + 23 {
        return None;
    }
    let iv = &datagram[..16];
    let key = &dst.raw()[..16];
    let mut c = Aes128Ctr::new(key.into(), iv.into());
    let mut hdr = datagram[16..16 + 23].to_vec();
    c.apply_keystream(&mut hdr);
    let size = u16::from_be_bytes([hdr[21], hdr[22]]) as usize;
    if datagram.len() < 16 + 23 + size {
        return None;
    }
    let mut auth = datagram[16 + 23..16 + 23 + size].to_vec();
    c.apply_keystream(&mut auth);
    let body = &datagram[16 + 23 + size..];
    auth.extend_from_slice(&rng.bytes(k));
    let new_size = (size + k) as u16;
    hdr[21..23].copy_from_slice(&new_size.to_be_bytes());
    let mut plain = hdr;
    plain.extend_from_slice(&auth);
    let mut c2 = Aes128Ctr::new(key.into(), iv.into());
    c2.apply_keystream(&mut plain);
    let mut out = iv.to_vec();
    out.extend_from_slice(&plain);
    out.extend_from_slice(body);
    Some(out)
}

// ------------------------------------------------------------------------------------------------
// Moves

#[derive(Clone, Debug)]
pub enum HsVariant {
    Honest,
    /// signed by another peer's key, attaching that peer's own record (D1)
    ForgedWithOwnRecord(usize),
    /// signed by another peer's key, no record attached
    ForgedNoRecord(usize),
    BadSignature,
    BadEphemeral,
    /// keys derived against a wrong static key of the local node
    WrongStatic,
    NoRecord,
    OldRecord,
    /// correctly signed, but the attached (newest) record advertises another address
    Unverifiable,
    /// an honest handshake to whose auth-data bytes were appended in flight (after the record; the
    /// auth-data size field adjusted): decodes, but the authenticated data no longer match
    TrailingAuthData,
}

#[derive(Clone, Debug)]
pub enum Move {
    AppRequest { peer: usize, with_enr: bool, kind: u8 },
    AppSelfRequest,
    AppAnswerWru { idx: usize, known: u8 },
    AppRespond { idx: usize, multi: u8 },
    NetRandom { peer: usize },
    NetHandshake { ch: usize, variant: HsVariant },
    /// as_other: the packet names the next peer as its source, but comes from this peer's address
    /// under this peer's session keys (a node with a session of its own borrowing another identity)
    NetRequest { peer: usize, old_keys: bool, as_other: bool },
    NetAnswer { req: usize, style: u8 },
    NetWhoAreYou { req: usize },
    NetReplay { idx: usize, other_src: bool },
    NetMutate { idx: usize, how: u8, pos: u64 },
    Advance { steps: u64 },
}

pub struct Step {
    coq_event: String,
    now: u64,
    outs: Vec<AOut>,
    wires: Vec<((u64, u64), APkt)>,
    exemptions: Vec<(u64, u64)>,
    sessions: u64,
    draws_pk: Vec<(u64, u64, u64, u64)>,
    draws_rid: Vec<u64>,
    /// this step answered a WHOAREYOU for a contact without a record: an internal request id is drawn
    hs_no_enr: Option<usize>,
    /// internal request ids first seen on the wire in this step: (peer, rid)
    new_internal: Vec<(usize, u64)>,
}

pub struct Runner {
    w: World,
    vh: VirtualHandler,
    steps: Vec<Step>,
    buffered_outs: Vec<HandlerOut>,
    buffered_wires: Vec<(NodeAddress, Vec<u8>)>,
    /// observation times of the buffered items (the clock may advance while outputs are buffered)
    out_times: Vec<u64>,
    wire_times: Vec<u64>,
}

async fn settle() {
    for _ in 0..64 {
        tokio::task::yield_now().await;
    }
}

impl Runner {
    async fn new(rng: &mut Rng, npeers: usize, retries: u8, capacity: usize) -> Runner {
        Self::new_with(rng, npeers, retries, capacity, None).await
    }

    async fn new_with(rng: &mut Rng, npeers: usize, retries: u8, capacity: usize, session_timeout: Option<Duration>) -> Runner {
        let w = World::new(rng, npeers, retries);
        let listen = ListenConfig::Ipv4 { ip: Ipv4Addr::new(10, 1, 0, 1), port: 9000 };
        let mut cb = ConfigBuilder::new(listen);
        cb.request_timeout(Duration::from_millis(TIMEOUT_MS)).request_retries(retries).session_cache_capacity(capacity);
        if let Some(t) = session_timeout {
            cb.session_timeout(t);
        }
        let config = cb.build();
        let mut w = w;
        w.capacity = capacity;
        if let Some(t) = session_timeout {
            w.ttl_ms = t.as_millis() as u64;
        }
        let enr_arc = Arc::new(RwLock::new(w.local_enr.clone()));
        w.local_enr_shared = Some(enr_arc.clone());
        let vh = VirtualHandler::spawn(
            enr_arc,
            Arc::new(RwLock::new(CombinedKey::secp256k1_from_bytes(&mut w.local_key.encode()).unwrap())),
            config,
            vec![w.local_addr],
        )
        .await
        .expect("spawn");
        settle().await;
        let _ = take_internal_request_ids();
        Runner { w, vh, steps: vec![], buffered_outs: vec![], buffered_wires: vec![], out_times: vec![], wire_times: vec![] }
    }

    /// Drains what the handler has produced.  The channel to the application holds 50 reports (as in
    /// Handler::spawn) and the handler waits for room: drain, let it run on, drain again until quiet.
    async fn collect(&mut self) {
        loop {
            let mut n = 0;
            while let Ok(o) = self.vh.from_handler.try_recv() {
                self.buffered_outs.push(o);
                self.out_times.push(self.w.now);
                n += 1;
            }
            while let Some(d) = self.vh.next_datagram() {
                self.buffered_wires.push(d);
                self.wire_times.push(self.w.now);
                n += 1;
            }
            if n == 0 {
                break;
            }
            settle().await;
        }
    }

    /// Closes a model step: everything observed since the previous step belongs to this event.
    async fn close_step(&mut self, coq_event: String) {
        self.collect().await;
        let outs_raw = std::mem::take(&mut self.buffered_outs);
        if std::env::var("VERIF_TRACE").is_ok() {
            eprintln!("step {} t={} {}: outs={:?} wires={} exempt={:?}", self.steps.len(), self.w.now, &coq_event[..coq_event.len().min(60)], outs_raw.iter().map(|o| format!("{:?}", o).chars().take(60).collect::<String>()).collect::<Vec<_>>(), self.buffered_wires.len(), self.vh.exemptions.read());
        }
        let wires_raw = std::mem::take(&mut self.buffered_wires);
        let out_times = std::mem::take(&mut self.out_times);
        let wire_times = std::mem::take(&mut self.wire_times);
        let real_now = self.w.now;
        // the wires are observed first (a request is on the wire before its outcome is reported)
        let mut outs = vec![];
        let mut deferred_outs = vec![];
        for (k, o) in outs_raw.iter().enumerate() {
            if let HandlerOut::ExpiredSessions(l) = o {
                self.w.hist.add(&format!("event:ExpiredSessions({})", l.len().min(3)));
            }
            if let Some(a) = self.w.abstract_out(o) {
                outs.push(a);
            }
            deferred_outs.push((out_times.get(k).cloned().unwrap_or(real_now), o.clone()));
        }
        let mut wires = vec![];
        let mut draws_pk = vec![];
        let draws_rid = vec![];
        let mut hs_no_enr = None;
        let mut new_internal = vec![];
        let mut seen_bytes: Vec<Vec<u8>> = vec![];
        for (wk, (na, bytes)) in wires_raw.iter().enumerate() {
            self.w.now = wire_times.get(wk).cloned().unwrap_or(real_now);
            let term = self.w.abstract_datagram(&na.node_id, bytes);
            let dst = (self.w.it.id(&na.node_id), self.w.it.addr(&na.socket_addr));
            if let Some(t) = term {
                // a retransmission is byte-identical to an earlier datagram: no fresh draws
                let is_new = !self.w.recorded.iter().any(|(_, b, k, _)| *k == "out" && b == bytes) && !seen_bytes.contains(bytes);
                if is_new {
                    match &t {
                        APkt::Msg { n, aad, ct, .. } => {
                            draws_pk.push((n.0, n.1, *aad, 0));
                            // an internal request id is drawn when an internal request is first put on the wire
                            if let ACt::Enc(_, _, AMsg::Req(rid, _), _) = ct {
                                let known = self.w.reqs.iter().any(|r| r.rid == *rid);
                                if !known {
                                    if let Some(pi) = self.w.peers.iter().position(|p| p.id == na.node_id) {
                                        new_internal.push((pi, *rid));
                                    }
                                }
                            }
                        }
                        APkt::Who { idn, cd, .. } => draws_pk.push((*idn, 0, *cd, 0)),
                        APkt::Hs { n, aad, eph, ct, .. } => {
                            draws_pk.push((n.0, n.1, *aad, *eph));
                            if let ACt::Enc(_, _, AMsg::Req(rid, _), _) = ct {
                                if let Some(q) = self.w.reqs.iter().find(|q| q.rid == *rid) {
                                    if !q.with_enr {
                                        hs_no_enr = Some(q.peer);
                                    }
                                }
                            }
                        }
                    }
                }
                seen_bytes.push(bytes.clone());
                self.observe_wire(na, bytes, &t, is_new);
                wires.push((dst, t));
            } else {
                self.w.fail("C05", "the handler emitted a datagram that does not decode".into());
            }
            self.w.recorded.push((self.w.local_addr, bytes.clone(), "out", usize::MAX));
        }
        for (t, o) in &deferred_outs {
            self.w.now = *t;
            self.observe_out(o);
        }
        self.w.now = real_now;
        let mut ex: Vec<(u64, u64)> = self.vh.exemptions.read().iter().map(|(a, c)| (self.w.it.addr(a), *c as u64)).collect();
        ex.sort();
        // the internal request ids the handler drew in this step (exact, through the hook)
        let mut draws_rid = draws_rid;
        for id in take_internal_request_ids() {
            draws_rid.push(self.w.it.rid(&id));
        }
        let step = Step { coq_event, now: self.w.now, outs, wires, exemptions: ex, sessions: session_count() as u64, draws_pk, draws_rid, hs_no_enr, new_internal };
        self.monitor_step(&step);
        self.steps.push(step);
    }

    // ---- monitors' bookkeeping ----------------------------------------------------------------

    fn observe_out(&mut self, o: &HandlerOut) {
        // C01: a node is reported as established only under its own identity: the session at
        // this socket was made with the peer that owns it (who proved that identity), so the
        // reported record must be that peer's
        // C12 (handler part): a session is reported as established only if the UDP address the
        // record advertises for the family of the observed address is absent or equal to it
        if let HandlerOut::Established(enr, socket, _) = o {
            let advertised: Option<SocketAddr> = match socket {
                SocketAddr::V4(_) => enr.udp4_socket().map(SocketAddr::V4),
                SocketAddr::V6(_) => enr.udp6_socket().map(SocketAddr::V6),
            };
            if let Some(a) = advertised {
                if a != *socket {
                    let msg = format!("a node was reported as established although its record advertises {} and its packets came from {}", a, socket).chars().map(|c| if c.is_ascii_digit() { '#' } else { c }).collect::<String>();
                    self.w.fail("C12", msg);
                }
            }
        }
        if let HandlerOut::Established(enr, socket, discv5::ConnectionDirection::Outgoing) = o {
            // (outgoing sessions are made with the contact that was dialled at this address)
            if let Some(p) = self.w.peers.iter().find(|p| p.addr == *socket) {
                if p.id != enr.node_id() {
                    let msg = "a session was reported as established with the record of a node that did not take part in the handshake".to_string();
                    self.w.fail("C01", msg);
                }
            }
        }
        match o {
            HandlerOut::WhoAreYou(w) => {
                if let Some(pi) = self.w.peers.iter().position(|p| p.id == w.0.node_id) {
                    self.w.pending_wru.push((w.clone(), pi));
                }
            }
            HandlerOut::Request(na, r) => {
                if let Some(pi) = self.w.peers.iter().position(|p| p.id == na.node_id) {
                    let at = self.steps.len();
                    self.w.pending_app_reqs.push((na.clone(), r.id.clone(), pi, at));
                }
            }
            HandlerOut::Response(_, r) => {
                let rid = self.w.it.rid(&r.id);
                let now = self.w.now;
                let mut msgs = vec![];
                if let Some(q) = self.w.reqs.iter_mut().find(|q| q.rid == rid && q.external) {
                    if q.terminal > 0 {
                        msgs.push(format!("event for request after its terminal outcome (Response after {})", q.terminal));
                    }
                    q.responses_seen += 1;
                    // (the number of packets of a NODES answer is the total its first packet announces)
                    if let (ResponseBody::Nodes { total, .. }, 1) = (&r.body, q.responses_seen) {
                        q.first_total = *total;
                    }
                    // a peer that announces different totals in the packets of one answer leaves it
                    // open which packet is the last: the handler's own reading (a packet with total
                    // <= 1, or as many packets as announced) is then taken as the end of the request
                    let terminal = match &r.body {
                        ResponseBody::Nodes { total, .. } => *total <= 1 || q.first_total <= 1 || q.responses_seen >= q.first_total || q.responses_seen >= *total,
                        _ => true,
                    };
                    if terminal {
                        q.terminal += 1;
                        // a partially answered multi-packet request is still unanswered
                        q.answered = true;
                    }
                    let _ = now;
                }
                for m in msgs {
                    self.w.fail("C04", m);
                }
            }
            HandlerOut::RequestFailed(id, err) => {
                let rid = self.w.it.rid(id);
                let now = self.w.now;
                let mut msgs = vec![];
                let peer = self.w.reqs.iter().find(|q| q.rid == rid && q.external).map(|q| q.peer);
                if let Some(q) = self.w.reqs.iter_mut().find(|q| q.rid == rid && q.external) {
                    if q.terminal > 0 {
                        msgs.push("request received a second terminal outcome (RequestFailed)".to_string());
                    }
                    q.terminal += 1;
                }
                if matches!(err, discv5::RequestError::Timeout) {
                    if let Some(p) = peer {
                        // some request to that peer must have been on the wire, unanswered, for a full period
                        let justified = self.w.reqs.iter().any(|q| q.peer == p && q.first_tx > 0 && !q.answered && q.first_tx + TIMEOUT_MS <= now);
                        if !justified {
                            msgs.push("Timeout reported although no request to that peer went unanswered for a full timeout period".to_string());
                        }
                    }
                }
                for m in msgs {
                    self.w.fail("C04", m);
                }
            }
            _ => {}
        }
    }

    fn observe_wire(&mut self, na: &NodeAddress, bytes: &[u8], t: &APkt, is_new: bool) {
        let now = self.w.now;
        let pi = self.w.peers.iter().position(|p| p.id == na.node_id);
        match t {
            APkt::Who { idn, cd, n, .. } => {
                // (a WHOAREYOU is never retransmitted: a second datagram with the same id-nonce - also a
                // byte-identical one - is a repetition)
                if !self.w.idnonces_seen.insert(*idn) {
                    self.w.fail("C19", "the id-nonce of a WHOAREYOU packet repeats".into());
                }
                if let (Some(pi), true) = (pi, is_new) {
                    let (p, aad) = wire_decode(&na.node_id, self.w.pid, bytes).unwrap();
                    let _ = (cd, n);
                    self.w.out_challenges.push((pi, aad, p.nonce, now, na.socket_addr));
                }
            }
            APkt::Msg { n, ct, .. } | APkt::Hs { n, ct, .. } => {
                if let ACt::Enc(k, _, m, _) = ct {
                    // C19: one nonce per key, except byte-identical retransmissions
                    if let Some(prev) = self.w.nonces_seen.get(&(k.clone(), *n)) {
                        if prev != bytes {
                            self.w.fail("C19", "two different datagrams encrypted under the same key and nonce".into());
                        }
                    } else {
                        self.w.nonces_seen.insert((k.clone(), *n), bytes.to_vec());
                    }
                    // C06: what the handler encrypts is the specified encoding of the message it was
                    // given - it decodes, and to the request the application submitted under that id
                    match m {
                        AMsg::Bad(_) => self.w.fail("C06", "the handler put a message on the wire whose plaintext does not decode as a discv5 message".into()),
                        AMsg::Req(rid, b) => {
                            let submitted: Option<RequestBody> = self.w.reqs.iter().find(|q| q.rid == *rid && q.external).map(|q| q.body.clone());
                            if let Some(body) = submitted {
                                if !self.w.dup_ids && self.w.it.body(&body) != *b {
                                    self.w.fail("C06", "the request on the wire decodes to another request than the one the application submitted under that id".into());
                                }
                            }
                        }
                        _ => {}
                    }
                    if let (APkt::Hs { .. }, AMsg::Req(rid, _), true) = (t, m, is_new) {
                        let c = self.w.handshakes_per_request.entry(*rid).or_insert(0);
                        *c += 1;
                        if *c > 1 {
                            self.w.fail("C03", "a request was answered with a second handshake packet".into());
                        }
                    }
                    if let (AMsg::Req(rid, _), Some(pi)) = (m, pi) {
                        let (p, _) = wire_decode(&na.node_id, self.w.pid, bytes).unwrap();
                        let key = Some(k.clone());
                        if !self.w.reqs.iter().any(|q| q.rid == *rid) {
                            // an internal request
                            self.w.reqs.push(OutReq { peer: pi, rid: *rid, rid_bytes: vec![], external: false, with_enr: false, nonce: p.nonce, first_tx: now, answered: false, terminal: 0, body: RequestBody::FindNode { distances: vec![0] }, tx_per_key: BTreeMap::new(), responses_seen: 0, first_total: 0 });
                        }
                        let retries = self.w.retries as u32;
                        let mut over = false;
                        if let Some(q) = self.w.reqs.iter_mut().find(|q| q.rid == *rid) {
                            q.nonce = p.nonce;
                            if q.first_tx == 0 {
                                q.first_tx = now;
                            }
                            let c = q.tx_per_key.entry(key).or_insert(0);
                            *c += 1;
                            if *c > 1 + retries {
                                over = true;
                            }
                        }
                        if over {
                            self.w.fail("C04", "a request was put on the wire more than 1+retries times under one session key".into());
                        }
                    }
                } else if let (APkt::Msg { .. }, Some(pi)) = (t, pi) {
                    // a random packet: carries the most recent external request to that peer not yet on the wire
                    let (p, _) = wire_decode(&na.node_id, self.w.pid, bytes).unwrap();
                    if is_new {
                        if let Some(q) = self.w.reqs.iter_mut().find(|q| q.peer == pi && q.first_tx == 0 && q.terminal == 0) {
                            q.first_tx = now;
                            q.nonce = p.nonce;
                        } else {
                            self.w.unattributed.insert(na.socket_addr);
                        }
                    } else if let Some(q) = self.w.reqs.iter_mut().find(|q| q.peer == pi && q.nonce == p.nonce) {
                        let c = q.tx_per_key.entry(None).or_insert(0);
                        *c += 1;
                    }
                }
            }
        }
    }

    fn monitor_step(&mut self, s: &Step) {
        // C15: a session that has not been used for longer than the session timeout is not used again.
        // "Used" is over-approximated by "anything at all happened that involves the peer's address"
        // (so the monitor can only be too lenient); a step that sets up a new session is exempt.
        {
            let ev_addr: Option<u64> = {
                let t: Vec<&str> = s.coq_event.split(|c: char| c == ' ' || c == '(' || c == ')' || c == ',').filter(|x| !x.is_empty()).collect();
                match t.first().copied() {
                    Some("EvRequest") => t.get(3).and_then(|x| x.parse().ok()),
                    Some("EvResponse") | Some("EvWhoAreYou") => t.get(2).and_then(|x| x.parse().ok()),
                    Some("EvInbound") => t.get(1).and_then(|x| x.parse().ok()),
                    _ => None,
                }
            };
            let fresh: Vec<u64> = s
                .outs
                .iter()
                .filter_map(|o| match o {
                    AOut::Established(_, a, _) | AOut::Unverifiable(_, a, _) => Some(*a),
                    _ => None,
                })
                .chain(s.wires.iter().filter_map(|(d, p)| if matches!(p, APkt::Hs { .. }) { Some(d.1) } else { None }))
                .collect();
            let mut used: Vec<(u64, &str)> = vec![];
            for (d, p) in &s.wires {
                if matches!(p, APkt::Msg { ct: ACt::Enc(..), .. }) {
                    used.push((d.1, "encrypt"));
                }
            }
            for o in &s.outs {
                if let AOut::Request(na, _, _) | AOut::Response(na, _, _) = o {
                    used.push((na.1, "accept"));
                }
            }
            for (a, how) in used {
                if fresh.contains(&a) {
                    continue;
                }
                if let Some(t0) = self.w.last_touch.get(&a) {
                    if s.now > *t0 + self.w.ttl_ms {
                        self.w.failures.push(("C15".into(), format!("a session was used to {} a message although nothing had involved that peer for longer than the session timeout", how)));
                    }
                }
            }
            let mut touched: Vec<u64> = s.wires.iter().map(|(d, _)| d.1).collect();
            touched.extend(ev_addr);
            for o in &s.outs {
                match o {
                    AOut::Established(_, a, _) | AOut::Unverifiable(_, a, _) => touched.push(*a),
                    AOut::Request(na, _, _) | AOut::Response(na, _, _) | AOut::WhoAreYou(na, _) => touched.push(na.1),
                    _ => {}
                }
            }
            for a in touched {
                self.w.last_touch.insert(a, s.now);
            }
        }
        // C15: the number of sessions held never exceeds the configured capacity
        if s.sessions as usize > self.w.capacity {
            self.w.failures.push(("C15".into(), format!("{} sessions are held although the configured capacity is {}", s.sessions, self.w.capacity)));
        }
        // C13: an address is exempt only while something is outstanding for it
        for (a, c) in &s.exemptions {
            if self.w.unattributed.iter().any(|x| self.w.it.map.get(&('a', x.to_string().into_bytes())).map(|k| 2 * k + x.is_ipv6() as u64) == Some(*a)) {
                continue;
            }
            let mut outstanding = 0u64;
            for q in &self.w.reqs {
                let pa = self.w.peers[q.peer].addr;
                if self.w.it.addr(&pa) == *a && q.first_tx > 0 && q.terminal == 0 && !(q.answered && !q.external) {
                    outstanding += 1;
                }
            }
            for (_, _, _, _, pa) in &self.w.out_challenges {
                let pa = *pa;
                if self.w.it.addr(&pa) == *a {
                    outstanding += 1;
                }
            }
            if *c > outstanding {
                if std::env::var("VERIF_TRACE").is_ok() {
                    eprintln!("  C13 upper: addr {} now {} reqs {:?} challenges {:?}", a, self.w.now,
                        self.w.reqs.iter().map(|q| (q.rid, q.peer, q.external, q.first_tx, q.terminal, q.answered)).collect::<Vec<_>>(),
                        self.w.out_challenges.iter().map(|(p, _, _, t, a)| (*p, *t, *a)).collect::<Vec<_>>());
                }
                self.w.failures.push(("C13".into(), format!("address holds {} filter exemptions but only {} exchanges are outstanding", c, outstanding)));
            }
        }
        // ... and it is exempt while something is outstanding: every request of the application
        // that is on the wire without an outcome holds one exemption
        let mut need: BTreeMap<u64, u64> = BTreeMap::new();
        for q in &self.w.reqs {
            if q.external && q.first_tx > 0 && q.terminal == 0 {
                let pa = self.w.peers[q.peer].addr;
                *need.entry(self.w.it.addr(&pa)).or_insert(0) += 1;
            }
        }
        // (challenges are not part of this lower bound: whether a handshake consumed one is not
        // observable without re-implementing the handler's decision)
        for (a, n) in need {
            let have = s.exemptions.iter().find(|(x, _)| *x == a).map(|(_, c)| *c).unwrap_or(0);
            if have < n {
                self.w.failures.push(("C13".into(), format!("address holds {} filter exemptions although {} exchanges are outstanding", have, n)));
            }
        }
    }

    // ---- the moves ------------------------------------------------------------------------------

    async fn advance(&mut self, steps: u64) {
        for _ in 0..steps {
            tokio::time::advance(Duration::from_millis(GRID_MS)).await;
            self.w.now += GRID_MS;
            settle().await;
            self.collect().await;
            // expiry of our challenges
            self.expire_challenges();
            // one model step per grid instant at which something was observed: a step then holds
            // the timers of (nearly always) one deadline only
            if !self.buffered_outs.is_empty() || !self.buffered_wires.is_empty() {
                self.close_step("EvTick".into()).await;
            }
        }
        self.close_step("EvTick".into()).await;
    }

    async fn tick_gap(&mut self) {
        // every event happens on the grid, at least one grid step after the previous one
        tokio::time::advance(Duration::from_millis(GRID_MS)).await;
        self.w.now += GRID_MS;
        settle().await;
        self.collect().await;
        self.expire_challenges();
    }

    fn expire_challenges(&mut self) {
        let now = self.w.now;
        let (live, dead): (Vec<_>, Vec<_>) = self.w.out_challenges.drain(..).partition(|(_, _, _, t, _)| t + TIMEOUT_MS > now);
        self.w.out_challenges = live;
        self.w.expired_challenges.extend(dead);
        let n = self.w.expired_challenges.len();
        if n > 8 {
            self.w.expired_challenges.drain(..n - 8);
        }
    }

    fn contact_of(&self, pi: usize, with_enr: bool) -> NodeContact {
        let p = &self.w.peers[pi];
        if with_enr {
            NodeContact::new(p.enrs[0].public_key(), p.addr, Some(p.enrs[0].clone()))
        } else {
            NodeContact::new(p.enrs[0].public_key(), p.addr, None)
        }
    }

    fn coq_contact(&mut self, c: &NodeContact) -> String {
        let id = self.w.it.id(&c.node_id());
        let a = self.w.it.addr(&c.socket_addr());
        let e = c.enr().map(|e| self.w.it.enr(&e));
        let ed = !matches!(c.public_key(), discv5::enr::CombinedPublicKey::Secp256k1(_));
        format!("({} {} {} {})", if ed { "Ced" } else { "C" }, id, a, coq_oenr(&e))
    }

    async fn app_request(&mut self, rng: &mut Rng, pi: usize, with_enr: bool, kind: u8) {
        self.tick_gap().await;
        let contact = self.contact_of(pi, with_enr);
        let body = match kind % 3 {
            0 => RequestBody::Ping { enr_seq: rng.below(5) },
            1 => RequestBody::FindNode { distances: vec![rng.range(1, 256), 255] },
            _ => RequestBody::Talk { protocol: b"p".to_vec(), request: { let l = rng.below(20) as usize; rng.bytes(l) } },
        };
        let idl = rng.range(1, 8) as usize;
        let id = RequestId(rng.bytes(idl));
        // focus c19dup (monitor-only runs): the application reuses the id of a request that is still in
        // flight to the same peer, with another body (the model and the request ledger assume
        // distinct ids; the nonce monitors do not)
        if self.w.dup_ids && rng.chance(1, 3) {
            let inflight: Vec<RequestId> = self.w.reqs.iter().filter(|q| q.external && q.peer == pi && q.first_tx > 0 && q.terminal == 0 && q.body != body).map(|q| RequestId(q.rid_bytes.clone())).collect();
            if !inflight.is_empty() {
                let id = inflight[rng.below(inflight.len() as u64) as usize].clone();
                self.w.hist.add("request:id_of_a_request_in_flight");
                let _ = self.vh.to_handler.send(HandlerIn::Request(contact, Box::new(Request { id, body })));
                settle().await;
                return self.close_step("EvTick".into()).await;
            }
        }
        // request ids must be distinct per case
        let rid = self.w.it.rid(&id);
        if self.w.reqs.iter().any(|q| q.rid == rid) {
            return self.close_step("EvTick".into()).await;
        }
        let b = self.w.it.body(&body);
        let cc = self.coq_contact(&contact);
        self.w.reqs.push(OutReq { peer: pi, rid, rid_bytes: id.0.clone(), external: true, with_enr, nonce: [0; 12], first_tx: 0, answered: false, terminal: 0, body: body.clone(), tx_per_key: BTreeMap::new(), responses_seen: 0, first_total: 0 });
        let _ = self.vh.to_handler.send(HandlerIn::Request(contact, Box::new(Request { id, body })));
        settle().await;
        self.close_step(format!("EvRequest {} {} {}", cc, rid, b)).await;
    }

    async fn app_self_request(&mut self, rng: &mut Rng) {
        self.tick_gap().await;
        let p = &self.w.peers[0];
        let contact = NodeContact::new(p.enrs[0].public_key(), self.w.local_addr, None);
        let body = RequestBody::Ping { enr_seq: 1 };
        let id = RequestId(rng.bytes(8));
        let rid = self.w.it.rid(&id);
        let b = self.w.it.body(&body);
        let cc = self.coq_contact(&contact);
        self.w.reqs.push(OutReq { peer: 0, rid, rid_bytes: id.0.clone(), external: true, with_enr: false, nonce: [0; 12], first_tx: 0, answered: false, terminal: 0, body: body.clone(), tx_per_key: BTreeMap::new(), responses_seen: 0, first_total: 0 });
        let _ = self.vh.to_handler.send(HandlerIn::Request(contact, Box::new(Request { id, body })));
        settle().await;
        self.close_step(format!("EvRequest {} {} {}", cc, rid, b)).await;
    }

    async fn app_answer_wru(&mut self, idx: usize, known: u8) {
        if self.w.pending_wru.is_empty() {
            return;
        }
        self.tick_gap().await;
        let (wref, pi) = self.w.pending_wru.remove(idx % self.w.pending_wru.len());
        let enr = match known % 5 {
            0 => None,
            1 => Some(self.w.peers[pi].enrs[0].clone()),
            2 => Some(self.w.peers[pi].enrs[1].clone()),
            3 => Some(self.w.peers[pi].enrs[2].clone()),
            // a record the application holds that advertises another address than the peer uses
            // (added by the user or learnt from a NODES response: never checked against a source)
            _ => Some(self.w.peers[pi].enrs[3].clone()),
        };
        let na = (self.w.it.id(&wref.0.node_id), self.w.it.addr(&wref.0.socket_addr));
        let n = self.w.it.nonce(&whoareyou_ref_nonce(&wref));
        let ae = enr.as_ref().map(|e| self.w.it.enr(e));
        let answered_with = enr.as_ref().map(|e| e.seq());
        let wru_addr = wref.0.socket_addr;
        let _ = self.vh.to_handler.send(HandlerIn::WhoAreYou(wref, enr));
        settle().await;
        self.close_step(format!("EvWhoAreYou ({}, {}) {} {}", na.0, na.1, coq_nonce(&n), coq_oenr(&ae))).await;
        // the answer counts only if it made the handler send a WHOAREYOU (a second answer while a
        // challenge is outstanding is ignored)
        if self.steps.last().map(|s| s.wires.iter().any(|(_, p)| matches!(p, APkt::Who { .. }))).unwrap_or(false) {
            match answered_with {
                Some(q) => {
                    self.w.known_seq.insert((pi, wru_addr), q);
                }
                None => {
                    self.w.known_seq.remove(&(pi, wru_addr));
                }
            }
        }
    }

    async fn app_respond(&mut self, rng: &mut Rng, idx: usize, multi: u8) {
        if self.w.pending_app_reqs.is_empty() {
            return;
        }
        self.tick_gap().await;
        // one response in four answers a request a second time (the peer re-sent it, the local record
        // changed in between, ...): the entry stays in the list, the content differs
        // idx >= FORCE (scripted) and every other random choice: the request delivered last
        let k = if idx >= FORCE || idx % 2 == 1 { self.w.pending_app_reqs.len() - 1 } else { idx % self.w.pending_app_reqs.len() };
        let (na, id, pi, at) = if idx < FORCE && rng.chance(1, 4) { self.w.pending_app_reqs[k].clone() } else { self.w.pending_app_reqs.remove(k) };
        // answered in the very next step after its delivery: the session it arrived on is still there
        let at_once = at + 1 == self.steps.len();
        let body = match multi % 3 {
            0 => ResponseBody::Pong { enr_seq: 3 + rng.below(4), ip: IpAddr::V4(Ipv4Addr::new(10, 2, 0, 1)), port: NonZeroU16::new(9000).unwrap() },
            1 => ResponseBody::Nodes { total: 1, nodes: vec![self.w.peers[pi].enrs[0].clone()] },
            _ => ResponseBody::Talk { response: rng.bytes(5) },
        };
        let a = (self.w.it.id(&na.node_id), self.w.it.addr(&na.socket_addr));
        let rid = self.w.it.rid(&id);
        let rb = self.w.it.rbody(&body);
        let is_talk = matches!(body, ResponseBody::Talk { .. });
        let _ = self.vh.to_handler.send(HandlerIn::Response(na, Box::new(Response { id, body })));
        settle().await;
        self.close_step(format!("EvResponse ({}, {}) {} {}", a.0, a.1, rid, rb.coq())).await;
        // C20 / C14: the answer the application gives to a request goes out to the node address the
        // request came from (one datagram per response here: the bodies above fit one packet)
        if at_once {
            self.w.hist.add("response:at_once");
            let sent = self.steps.last().map(|s| s.wires.iter().filter(|(d, p)| *d == a && matches!(p, APkt::Msg { .. })).count()).unwrap_or(0);
            if sent != 1 {
                let what = format!("the application answered a request in the step after its delivery, {} datagrams went to the requester instead of one", sent);
                self.w.failures.push((if is_talk { "C20" } else { "C14" }.into(), what));
            }
            // ... sealed under the generation of keys the request came in on (a peer that still uses
            // the previous keys after a re-key must be able to read its answer)
            if let Some(rk) = self.w.last_req_key.take() {
                let under: Vec<KeyT> = self.steps.last().map(|s| s.wires.iter().filter(|(d, _)| *d == a).filter_map(|(_, p)| match p { APkt::Msg { ct: ACt::Enc(k, ..), .. } => Some(k.clone()), _ => None }).collect()).unwrap_or_default();
                if let Some(k) = under.first() {
                    if !(k.eph == rk.eph && k.cd == rk.cd && k.half != rk.half) {
                        let what = "the answer to a request delivered a step earlier is sealed under another generation of session keys than the request came in on: the requester cannot read it".to_string();
                        self.w.failures.push((if is_talk { "C20" } else { "C14" }.into(), what));
                    }
                }
            }
        }
    }

    /// The application answers every request it holds at once (nothing is read from the wire in
    /// between): the queue to the socket task holds 30 packets, the handler has to wait for room.
    async fn app_respond_burst(&mut self, rng: &mut Rng, peer: usize, since_step: usize) {
        // (only the requests of that peer delivered since that step: older ones may belong to
        // sessions that are gone)
        let (reqs, rest): (Vec<_>, Vec<_>) = std::mem::take(&mut self.w.pending_app_reqs).into_iter().partition(|x| x.2 == peer && x.3 >= since_step);
        self.w.pending_app_reqs = rest;
        if reqs.is_empty() {
            return;
        }
        self.tick_gap().await;
        let mut events = vec![];
        for (na, id, _pi, _) in reqs.iter() {
            let body = if rng.chance(1, 2) {
                ResponseBody::Talk { response: rng.bytes(5) }
            } else {
                ResponseBody::Pong { enr_seq: 3 + rng.below(4), ip: IpAddr::V4(Ipv4Addr::new(10, 2, 0, 1)), port: NonZeroU16::new(9000).unwrap() }
            };
            let a = (self.w.it.id(&na.node_id), self.w.it.addr(&na.socket_addr));
            let rid = self.w.it.rid(id);
            let rb = self.w.it.rbody(&body);
            events.push((a, format!("EvResponse ({}, {}) {} {}", a.0, a.1, rid, rb.coq())));
            let _ = self.vh.to_handler.send(HandlerIn::Response(na.clone(), Box::new(Response { id: id.clone(), body })));
        }
        settle().await;
        self.collect().await;
        // one datagram per response, in the order of the responses
        let wires = std::mem::take(&mut self.buffered_wires);
        let times = std::mem::take(&mut self.wire_times);
        let n = events.len();
        if wires.len() != n {
            self.w.failures.push(("C20".into(), format!("the application answered {} requests at once, {} datagrams reached the wire", n, wires.len())));
            self.w.failures.push(("C14".into(), format!("{} answers (PONG / TALKRESP) were handed to the handler at once, {} datagrams reached the wire", n, wires.len())));
        }
        let mut wi = wires.into_iter().zip(times.into_iter());
        for (k, (_, ev)) in events.into_iter().enumerate() {
            if let Some((w, t)) = wi.next() {
                self.buffered_wires.push(w);
                self.wire_times.push(t);
            }
            if k + 1 == n {
                for (w, t) in wi.by_ref() {
                    self.buffered_wires.push(w);
                    self.wire_times.push(t);
                }
            }
            self.close_step(ev).await;
        }
        self.w.hist.add("scripted:burst_of_responses");
    }

    /// Delivers a datagram; returns false if it is not a decodable discv5 packet for the local node
    /// (then the handler only reports an unrecognised frame and no model event is generated).
    async fn inject(&mut self, src: SocketAddr, bytes: Vec<u8>, kind: &'static str, maker: usize, mutated: bool, forged_for: Option<usize>) {
        // (the key term of a peer request travels with its datagram: any other datagram clears it)
        self.w.last_req_key = self.w.next_req_key.take();
        self.tick_gap().await;
        let local = self.w.local_id;
        let term = self.w.abstract_datagram(&local, &bytes[..bytes.len().min(1280)]);
        let a = self.w.it.addr(&src);
        // any handshake packet in the name of a node finds the challenge outstanding for that node
        // address; when it fails the signature check the challenge is kept and its timer restarts
        // (the ledger over-approximates: it keeps the challenge alive whatever the outcome)
        if let Ok((p, _)) = wire_decode(&local, self.w.pid, &bytes) {
            if let PacketKind::Handshake { src_id, .. } = &p.kind {
                let now = self.w.now;
                let peers = &self.w.peers;
                for c in self.w.out_challenges.iter_mut() {
                    if peers[c.0].id == *src_id && c.4 == src {
                        c.3 = now;
                    }
                }
            }
        }
        self.vh.inject(src, &bytes).await;
        settle().await;
        self.w.recorded.push((src, bytes.clone(), kind, maker));
        match term {
            Some(t) => {
                self.collect().await;
                // C02 / C01 monitors on what this datagram caused
                // (a handshake extended in flight may still establish the session: the id signature
                // does not cover the auth-data; what must not happen is the delivery of its message)
                let delivered: Vec<&HandlerOut> = self.buffered_outs.iter().filter(|o| matches!(o, HandlerOut::Request(..) | HandlerOut::Response(..))).collect();
                if mutated && !delivered.is_empty() {
                    self.w.failures.push(("C02".into(), "a tampered datagram led to a delivered message".into()));
                }
                if let Some(victim) = forged_for {
                    let vid = self.w.peers[victim].id;
                    let bad = self.buffered_outs.iter().any(|o| match o {
                        HandlerOut::Established(e, _, _) => e.node_id() == vid || true,
                        HandlerOut::UnverifiableEnr { node_id, .. } => *node_id == vid,
                        HandlerOut::Request(na, _) | HandlerOut::Response(na, _) => na.node_id == vid,
                        _ => false,
                    });
                    if bad {
                        self.w.failures.push(("C01".into(), "a party without the secret key of node X completed a handshake as X".into()));
                    }
                    let delivered_as_victim = self.buffered_outs.iter().any(|o| match o {
                        HandlerOut::Request(na, _) | HandlerOut::Response(na, _) => na.node_id == vid,
                        _ => false,
                    });
                    if delivered_as_victim {
                        self.w.failures.push(("C02".into(), "a message was delivered as coming from a peer that never completed a handshake with this node".into()));
                    }
                }
                // C01: a session is reported under the record of the node the packet names (the one whose
                // key was proven in the handshake), never under another node's record
                if let Ok((p, _)) = wire_decode(&local, self.w.pid, &bytes) {
                    let named = match &p.kind {
                        PacketKind::Message { src_id } | PacketKind::Handshake { src_id, .. } => Some(*src_id),
                        // a WHOAREYOU: the session this node sets up is with the node it had addressed
                        // the challenged request to (requests go to the peers' own addresses)
                        _ => self.w.peers.iter().find(|q| q.addr == src).map(|q| q.id),
                    };
                    for o in &self.buffered_outs {
                        if let HandlerOut::Established(e, _, _) = o {
                            if named.is_some() && Some(e.node_id()) != named {
                                self.w.failures.push(("C01".into(), "a node was reported as established under the record of another node than the one that proved its key".into()));
                            }
                        }
                    }
                }
                // C03: a replayed handshake never creates or re-keys a session (it may still be
                // rejected with an error that fails the exchange it arrives in)
                if kind == "replay-hs"
                    && self.buffered_outs.iter().any(|o| matches!(o, HandlerOut::Established(..) | HandlerOut::UnverifiableEnr { .. } | HandlerOut::Request(..) | HandlerOut::Response(..)))
                {
                    self.w.failures.push(("C03".into(), "a replayed handshake packet was accepted (session established / message delivered)".into()));
                    // C01: a node is treated as X only on an answer to a FRESH challenge; C02: the message
                    // of the replayed datagram is handed over a second time
                    self.w.failures.push(("C01".into(), "a replayed handshake packet (its WHOAREYOU was answered before) established a session or reported a node again".into()));
                    if self.buffered_outs.iter().any(|o| matches!(o, HandlerOut::Request(..) | HandlerOut::Response(..))) {
                        self.w.failures.push(("C02".into(), "the message inside a replayed handshake packet was delivered again".into()));
                    }
                }
                self.close_step(format!("EvInbound {} {}", a, t.coq())).await;
            }
            None => {
                self.collect().await;
                // (events of timers that fired in the gap before the datagram may be buffered as well;
                // what an undecodable datagram must not cause is a delivery or a session)
                let bad = self.buffered_outs.iter().any(|o| matches!(o, HandlerOut::Request(..) | HandlerOut::Response(..) | HandlerOut::Established(..) | HandlerOut::WhoAreYou(..)));
                if bad {
                    self.w.failures.push(("C02".into(), "an undecodable datagram had an effect".into()));
                }
                // drop only the unrecognised-frame reports: timers may have fired in the gap before
                // this datagram, their events belong to this (tick) step
                let keep: Vec<bool> = self.buffered_outs.iter().map(|o| !matches!(o, HandlerOut::UnrecognizedFrame(_))).collect();
                let mut k = keep.iter();
                self.buffered_outs.retain(|_| *k.next().unwrap());
                let mut k = keep.iter();
                self.out_times.retain(|_| *k.next().unwrap());
                self.close_step("EvTick".into()).await;
            }
        }
    }

    fn build(&mut self, from: usize, iv: u128, nonce: MessageNonce, kind: PacketKind, message: Vec<u8>) -> (WirePacket, Vec<u8>) {
        let _ = from;
        let p = WirePacket { iv, nonce, kind, message };
        let aad = wire_aad(&p, self.w.pid);
        (p, aad)
    }

    async fn net_random(&mut self, rng: &mut Rng, pi: usize) {
        let src_id = self.w.peers[pi].id;
        let mut nonce = [0u8; 12];
        nonce.copy_from_slice(&rng.bytes(12));
        let (p, _) = self.build(pi, rng.next() as u128, nonce, PacketKind::Message { src_id }, rng.bytes(44));
        let bytes = wire_encode(&p, self.w.pid, &self.w.local_id);
        let src = self.w.peers[pi].addr;
        self.inject(src, bytes, "random", pi, false, None).await;
    }

    fn some_request_bytes(&mut self, rng: &mut Rng) -> (RequestId, Vec<u8>) {
        // (a peer may choose any id of at most 8 bytes, the empty one included)
        let idl = if rng.chance(1, 8) { 0 } else { rng.range(1, 8) as usize };
        let id = RequestId(rng.bytes(idl));
        let body = match rng.below(3) {
            0 => RequestBody::Ping { enr_seq: rng.below(9) },
            1 => RequestBody::FindNode {
                distances: match rng.below(6) {
                    0 => vec![],
                    1 => vec![256],
                    2 => vec![256, 255, 256],
                    3 => (0..rng.range(2, 12)).map(|_| rng.below(257)).collect(),
                    _ => vec![0],
                },
            },
            _ => RequestBody::Talk { protocol: b"x".to_vec(), request: rng.bytes(3) },
        };
        let is_talk = matches!(body, RequestBody::Talk { .. });
        let req = Request { id: id.clone(), body };
        let bytes = req.clone().encode();
        // C06 / C14: what a peer encodes from a well-formed request decodes to that request (the
        // handler hands a request to the application only if it decodes)
        if Message::decode(&bytes).ok() != Some(Message::Request(req.clone())) {
            self.w.fail("C06", format!("a well-formed request does not decode to itself: {:?}", req));
            if !is_talk {
                self.w.fail("C14", format!("a well-formed PING / FINDNODE request is rejected by the decoder and never reaches the service: {:?}", req));
            } else {
                self.w.fail("C20", format!("a well-formed TALKREQ does not reach the application as sent (its id decides the id of the TALKRESP): {:?}", req));
            }
        }
        (id, bytes)
    }

    async fn net_handshake(&mut self, rng: &mut Rng, ch: usize, variant: HsVariant) {
        // ch >= FORCE: a scripted, plain handshake for the live challenge ch - FORCE (never late, never
        // from another port)
        let forced = ch >= FORCE;
        let ch = if forced { ch - FORCE } else { ch };
        // a quarter of the handshakes answer a challenge whose timer has run out (if there is one)
        let late = !forced && ch % 4 == 3 && !self.w.expired_challenges.is_empty();
        if !late && self.w.out_challenges.is_empty() {
            return;
        }
        let (pi, cd, _nonce, _, ch_addr) = if late {
            self.w.expired_challenges[(ch / 4) % self.w.expired_challenges.len()].clone()
        } else {
            self.w.out_challenges[ch % self.w.out_challenges.len()].clone()
        };
        if late {
            self.w.hist.add("handshake:for_expired_challenge");
        }
        let local_id = self.w.local_id;
        let local_pk = self.w.local_enr.public_key();
        let pid = self.w.peers[pi].id;
        // who signs / which static key of the local node is used
        let (signer, attach): (usize, Option<Enr>) = match &variant {
            HsVariant::Honest | HsVariant::TrailingAuthData => (pi, Some(self.w.peers[pi].enrs[2].clone())),
            HsVariant::OldRecord => (pi, Some(self.w.peers[pi].enrs[0].clone())),
            HsVariant::Unverifiable => (pi, Some(self.w.peers[pi].enrs[3].clone())),
            HsVariant::NoRecord => (pi, None),
            HsVariant::ForgedWithOwnRecord(a) => (*a, Some(self.w.peers[*a].enrs[2].clone())),
            HsVariant::ForgedNoRecord(a) => (*a, None),
            HsVariant::BadSignature | HsVariant::BadEphemeral | HsVariant::WrongStatic => (pi, Some(self.w.peers[pi].enrs[1].clone())),
        };
        let static_pk = if matches!(variant, HsVariant::WrongStatic) { self.w.peers[(pi + 1) % self.w.peers.len()].enrs[0].public_key() } else { local_pk };
        let static_name = if matches!(variant, HsVariant::WrongStatic) { self.w.peers[(pi + 1) % self.w.peers.len()].id } else { local_id };
        let contact = NodeContact::new(static_pk, self.w.local_addr, None);
        let (ik, rk, mut eph) = match toolkit_generate_session_keys(&pid, &contact, &cd) {
            Some(x) => x,
            None => return,
        };
        let eph_id_real = self.w.it.eph(&eph);
        let cdid = self.w.it.aad(&cd);
        let (a, l, s) = (self.w.it.id(&pid), self.w.it.id(&local_id), self.w.it.id(&static_name));
        let kinit = KeyT { eph: eph_id_real, st: s, cd: cdid, ida: a, idb: l, half: false };
        let krec = KeyT { eph: eph_id_real, st: s, cd: cdid, ida: a, idb: l, half: true };
        self.w.register_key(ik, kinit.clone());
        self.w.register_key(rk, krec);
        // the keys the local node derives from this handshake (it uses its real static key)
        if let Some((ik2, rk2)) = toolkit_derive_keys_from_pubkey(&self.w.local_key, &local_id, &pid, &cd, &eph) {
            self.w.register_key(ik2, KeyT { eph: eph_id_real, st: l, cd: cdid, ida: a, idb: l, half: false });
            self.w.register_key(rk2, KeyT { eph: eph_id_real, st: l, cd: cdid, ida: a, idb: l, half: true });
        }
        let signer_id = self.w.peers[signer].id;
        let (mut sig, mut sig_term) = match toolkit_sign_nonce(&self.w.peers[signer].key, &cd, &eph, &local_id) {
            Some(sg) => (sg, ASig::Sig(self.w.it.id(&signer_id), cdid, eph_id_real, l)),
            None => {
                // an Ed25519 identity: any 64 bytes
                let sg = rng.bytes(64);
                let t = ASig::Bad(self.w.it.get('s', &sg));
                (sg, t)
            }
        };
        let ed_signer = matches!(sig_term, ASig::Bad(_));
        if matches!(variant, HsVariant::BadSignature) {
            let k = rng.below(sig.len() as u64) as usize;
            sig[k] ^= 1 << rng.below(8);
            sig_term = ASig::Bad(self.w.it.get('s', &sig));
        }
        if matches!(variant, HsVariant::BadEphemeral) {
            // not a curve point; the signature covers the bytes that are sent
            eph = vec![2u8; 33];
            eph[1] = 0xff;
            for b in eph.iter_mut().skip(2) {
                *b = 0xff;
            }
            if let Some(sg) = toolkit_sign_nonce(&self.w.peers[signer].key, &cd, &eph, &local_id) {
                sig = sg;
                let e2 = self.w.it.eph(&eph);
                sig_term = ASig::Sig(self.w.it.id(&signer_id), cdid, e2, l);
            }
        }
        self.w.sig_terms.insert(sig.clone(), sig_term);
        let mut nonce = [0u8; 12];
        nonce.copy_from_slice(&rng.bytes(12));
        let (id, req) = self.some_request_bytes(rng);
        let _ = id;
        let kind = PacketKind::Handshake { src_id: pid, id_nonce_sig: sig, ephem_pubkey: eph, enr_record: attach };
        let (mut p, aad) = self.build(pi, rng.next() as u128, nonce, kind, vec![]);
        let ct = toolkit_encrypt(&ik, nonce, &req, &aad).unwrap();
        let m = self.w.it.msg(&req);
        let t = ACt::Enc(kinit, self.w.it.nonce(&nonce), m, self.w.it.aad(&aad));
        self.w.ct_terms.insert(ct.clone(), t);
        p.message = ct;
        let mut bytes = wire_encode(&p, self.w.pid, &local_id);
        let mut tampered = false;
        if matches!(variant, HsVariant::TrailingAuthData) {
            if let Some(b) = extend_authdata(&bytes, &local_id, 1 + rng.below(6) as usize, rng) {
                bytes = b;
                tampered = true;
            }
        }
        // one handshake in eight arrives from another port of the challenged host (a socket this node
        // never challenged): it must have no effect, whoever produced it
        let relocated = !forced && !late && rng.chance(1, 8);
        let src = if relocated { SocketAddr::new(ch_addr.ip(), ch_addr.port() + 1 + rng.below(3) as u16) } else { ch_addr };
        let honest_signer = signer == pi && !ed_signer;
        if honest_signer && !late && !relocated && !matches!(variant, HsVariant::BadSignature | HsVariant::BadEphemeral | HsVariant::WrongStatic) {
            // the peer now shares these keys: it encrypts with the initiator key
            self.w.peers[pi].keys.push((ik, rk));
        }
        let consumed = !matches!(variant, HsVariant::BadSignature) && !ed_signer;
        {
            // a handshake that fails the signature check (also a forged one) leaves the challenge
            // outstanding and restarts its timer; the ledger keeps every challenge a handshake was
            // aimed at alive for a further period (it may over-approximate, never under-approximate)
            let now = self.w.now + GRID_MS;
            for c in self.w.out_challenges.iter_mut() {
                if c.1 == cd {
                    c.3 = now;
                }
            }
        }
        // a handshake in the name of an Ed25519 node proves nothing either
        let forged = if honest_signer { None } else { Some(pi) };
        if tampered {
            // the tampered copy consumes the challenge without establishing anything usable
            self.w.peers[pi].keys.pop();
        }
        let n_late = self.steps.len();
        if relocated {
            self.w.hist.add("handshake:from_another_port_of_the_challenged_host");
            self.inject(src, bytes, "relocated-handshake", signer, tampered, forged).await;
            let acted = self.steps[n_late..].iter().any(|s| s.outs.iter().any(|o| matches!(o, AOut::Established(..) | AOut::Unverifiable(..) | AOut::Request(..) | AOut::Response(..))));
            if acted {
                self.w.failures.push(("C01".into(), "a handshake was accepted from a socket address that this node never challenged".into()));
                self.w.failures.push(("C03".into(), "a handshake was accepted although no WHOAREYOU to exactly that source address was outstanding".into()));
                // C02: the message inside is then handed over as coming from that other address
                if self.steps[n_late..].iter().any(|s| s.outs.iter().any(|o| matches!(o, AOut::Request(..) | AOut::Response(..)))) {
                    self.w.failures.push(("C02".into(), "a handshake datagram presented from another source address than the challenged one led to a delivered message (attributed to that address)".into()));
                }
            }
            return;
        }
        self.inject(src, bytes, if late { "late-handshake" } else { "handshake" }, signer, tampered, forged).await;
        // C14: the request a handshake packet carries is handed to the application whenever the
        // handshake set up the session - also when the record it presents does not verify against the
        // source address (the peer is then not admitted to the table, but its PING is answered)
        // (only handshakes whose message is encrypted under the keys both sides derive)
        if !late && !tampered && honest_signer && matches!(variant, HsVariant::Honest | HsVariant::NoRecord | HsVariant::OldRecord | HsVariant::Unverifiable) {
            let set_up = self.steps[n_late..].iter().any(|s| s.outs.iter().any(|o| matches!(o, AOut::Established(..) | AOut::Unverifiable(..))));
            let delivered = self.steps[n_late..].iter().any(|s| s.outs.iter().any(|o| matches!(o, AOut::Request(..))));
            if set_up && !delivered {
                self.w.failures.push(("C14".into(), "a handshake set up a session but the request it carried was not handed to the application".into()));
            }
        }
        // C12: the record reported with the session a handshake establishes is never older than the one
        // the application supplied for that node with its who-are-you answer (the service would write
        // it over the stored record)
        if let Some(k) = self.w.known_seq.get(&(pi, ch_addr)).cloned() {
            let older = self.steps[n_late..].iter().any(|s| s.outs.iter().any(|o| matches!(o, AOut::Established(e, _, _) if e.seq < k)));
            if older {
                self.w.failures.push(("C12".into(), "a handshake established a session that was reported with an older record than the one the application had supplied for that node".into()));
            }
        }
        if late {
            // C03: answering after the challenge expired never creates or re-keys a session
            let acted = self.steps[n_late..].iter().any(|s| s.outs.iter().any(|o| matches!(o, AOut::Established(..) | AOut::Unverifiable(..) | AOut::Request(..) | AOut::Response(..))));
            if acted {
                self.w.failures.push(("C03".into(), "a handshake answering a WHOAREYOU whose timer had run out was accepted".into()));
            }
            return;
        }
        if consumed {
            // whatever the outcome, a challenge is consumed by a handshake whose signature check was reached
            let cdc = cd.clone();
            self.w.consumed_cds.insert(cd);
            // D1-forgeries with a valid signature of the attacker are "bad signature" for the repaired code: challenge stays
            if honest_signer || true {
                self.w.out_challenges.retain(|(_, c, _, _, _)| c != &cdc || !honest_signer);
            }
        }
    }

    async fn net_request(&mut self, rng: &mut Rng, pi: usize, old_keys: bool, as_other: bool) {
        if self.w.peers[pi].keys.is_empty() {
            return self.net_random(rng, pi).await;
        }
        let n = self.w.peers[pi].keys.len();
        let (mut ek, _) = if old_keys && n >= 2 { self.w.peers[pi].keys[n - 2] } else { self.w.peers[pi].keys[n - 1] };
        // one request in eight (never a scripted one) is sealed under a key no handshake produced: the
        // all-zero key, all ones, or the session key with one bit flipped - anyone can do that in the
        // peer's name, nothing of it may be delivered
        let forced_junk = self.w.force_junk.take();
        let junk_key = forced_junk.is_some() || (self.w.junk_keys && !as_other && rng.chance(1, 8));
        if junk_key {
            ek = match forced_junk.map(|x| x as u64).unwrap_or_else(|| rng.below(3)) {
                0 => [0u8; 16],
                1 => [0xffu8; 16],
                _ => {
                    let mut k = ek;
                    k[rng.below(16) as usize] ^= 1 << rng.below(8);
                    k
                }
            };
            self.w.hist.add("request:under_a_key_no_handshake_produced");
        }
        // a peer that holds a session of its own names another node as the source of its packet: the
        // session is that of (this address, this peer), so the packet finds none and nothing of it is
        // delivered in the other node's name
        let victim = (pi + 1) % self.w.peers.len();
        let borrowed = as_other && victim != pi;
        let src_id = if borrowed { self.w.peers[victim].id } else { self.w.peers[pi].id };
        if borrowed {
            self.w.hist.add("request:under_borrowed_identity");
        }
        let mut nonce = [0u8; 12];
        nonce.copy_from_slice(&rng.bytes(12));
        let (_, req) = self.some_request_bytes(rng);
        let (mut p, aad) = self.build(pi, rng.next() as u128, nonce, PacketKind::Message { src_id }, vec![]);
        p.message = toolkit_encrypt(&ek, nonce, &req, &aad).unwrap();
        let bytes = wire_encode(&p, self.w.pid, &self.w.local_id);
        let src = self.w.peers[pi].addr;
        let n0 = self.steps.len();
        self.w.next_req_key = if junk_key || borrowed { None } else { self.w.keys.iter().find(|(b, _)| *b == ek).map(|(_, t)| t.clone()) };
        self.inject(src, bytes, if junk_key { "junk-key-request" } else { "request" }, pi, false, if borrowed { Some(victim) } else { None }).await;
        if junk_key && self.steps[n0..].iter().any(|s| s.outs.iter().any(|o| matches!(o, AOut::Request(..) | AOut::Response(..)))) {
            self.w.failures.push(("C02".into(), "a message sealed under a key that no handshake with this node produced was delivered".into()));
            self.w.failures.push(("C01".into(), "a request was attributed to a node on the strength of a key that no handshake produced".into()));
        }
    }

    async fn net_answer(&mut self, rng: &mut Rng, req: usize, style: u8) {
        let cands: Vec<usize> = (0..self.w.reqs.len()).filter(|i| self.w.reqs[*i].first_tx > 0).collect();
        if cands.is_empty() {
            return;
        }
        // req >= FORCE selects the request with index req - FORCE directly
        let qi = if req >= FORCE && cands.contains(&(req - FORCE)) { req - FORCE } else { cands[req % cands.len()] };
        let pi = self.w.reqs[qi].peer;
        if self.w.peers[pi].keys.is_empty() {
            return;
        }
        // the request id: external ones are known, internal ones were learnt by decrypting
        let rid_bytes: Vec<u8> = if self.w.reqs[qi].external {
            self.w.reqs[qi].rid_bytes.clone()
        } else {
            let rid = self.w.reqs[qi].rid;
            match self.w.it.map.iter().find(|((t, _), v)| *t == 'r' && **v == rid) {
                Some(((_, b), _)) => b.clone(),
                None => return,
            }
        };
        let id = RequestId(rid_bytes);
        let is_findnode = matches!(self.w.reqs[qi].body, RequestBody::FindNode { .. });
        // answers to the handler's own ENR request: mostly the peer's record or another node's
        let style = if !self.w.reqs[qi].external { *rng.pick(&[0u8, 0, 1, 2, 3, 4, 4, 4, 4, 5, 6, 6, 7]) } else { style };
        let body = match (is_findnode, style % 8) {
            (true, 6) | (true, 7) => {
                // two records: the peer's own and a genuine, newer one of another node (without an
                // address, so that only the id check can tell); the handler reads the last one
                let other = (pi + 1) % self.w.peers.len();
                let foreign = mk_enr(&self.w.peers[other].key, 9, None);
                let own = self.w.peers[pi].enrs[2].clone();
                self.w.hist.add("response:two_records");
                ResponseBody::Nodes { total: 1, nodes: if style % 8 == 6 { vec![foreign, own] } else { vec![own, foreign] } }
            }
            (true, 0) => ResponseBody::Nodes { total: 1, nodes: vec![self.w.peers[pi].enrs[2].clone()] },
            (true, 1) => ResponseBody::Nodes { total: 3, nodes: vec![self.w.peers[pi].enrs[2].clone()] },
            (true, 2) => ResponseBody::Nodes { total: 1, nodes: vec![] },
            (true, 3) => ResponseBody::Nodes { total: 1, nodes: vec![self.w.peers[pi].enrs[1].clone()] },
            (true, 4) => {
                // the record of another node: with its address, or without any address (so that only the id check can reject it)
                let other = (pi + 1) % self.w.peers.len();
                let rec = if rng.chance(1, 3) { self.w.peers[other].enrs[0].clone() } else { mk_enr(&self.w.peers[other].key, 6, None) };
                ResponseBody::Nodes { total: 1, nodes: vec![rec] }
            }
            (_, 5) => ResponseBody::Talk { response: rng.bytes(4) },
            _ => ResponseBody::Pong { enr_seq: 2, ip: IpAddr::V4(Ipv4Addr::new(10, 1, 0, 1)), port: NonZeroU16::new(9000).unwrap() },
        };
        let total = match &body {
            ResponseBody::Nodes { total, .. } => *total,
            _ => 1,
        };
        let plain = Response { id, body }.encode();
        let n = self.w.peers[pi].keys.len();
        let (ek, _) = self.w.peers[pi].keys[n - 1];
        let src_id = self.w.peers[pi].id;
        let mut nonce = [0u8; 12];
        nonce.copy_from_slice(&rng.bytes(12));
        let (mut p, aad) = self.build(pi, rng.next() as u128, nonce, PacketKind::Message { src_id }, vec![]);
        p.message = toolkit_encrypt(&ek, nonce, &plain, &aad).unwrap();
        let bytes = wire_encode(&p, self.w.pid, &self.w.local_id);
        let src = self.w.answer_src.unwrap_or(self.w.peers[pi].addr);
        let n_out_before = self.steps.len();
        self.inject(src, bytes, "response", pi, false, None).await;
        // The request counts as answered if the handler could read the answer: external requests
        // are marked when the Response event is seen; an internal one when the answer did not
        // bounce (no who-are-you request to the application, i.e. it was decrypted).
        let bounced = self.steps[n_out_before..].iter().any(|s| s.outs.iter().any(|o| matches!(o, AOut::WhoAreYou(..))));
        if !self.w.reqs[qi].external && total <= 1 && !bounced {
            self.w.reqs[qi].answered = true;
        }
    }

    async fn net_whoareyou(&mut self, rng: &mut Rng, req: usize) {
        let cands: Vec<usize> = (0..self.w.reqs.len()).filter(|i| self.w.reqs[*i].first_tx > 0 && self.w.reqs[*i].terminal == 0).collect();
        if cands.is_empty() {
            return;
        }
        let qi = if req >= FORCE && cands.contains(&(req - FORCE)) { req - FORCE } else { cands[req % cands.len()] };
        let pi = self.w.reqs[qi].peer;
        let nonce = self.w.reqs[qi].nonce;
        let mut idn = [0u8; 16];
        idn.copy_from_slice(&rng.bytes(16));
        let seq = rng.below(6);
        let (p, aad) = self.build(pi, rng.next() as u128, nonce, PacketKind::WhoAreYou { id_nonce: idn, enr_seq: seq }, vec![]);
        if !self.w.cds.contains(&aad) {
            self.w.cds.push(aad);
        }
        let bytes = wire_encode(&p, self.w.pid, &self.w.local_id);
        let right = self.w.peers[pi].addr;
        let src = match if req >= FORCE { 11 } else { rng.below(12) } {
            0 => self.w.peers[(pi + 1) % self.w.peers.len()].addr,
            // the same IP address, another port
            1 | 2 => SocketAddr::new(right.ip(), right.port() + 1 + rng.below(3) as u16),
            _ => right,
        };
        let n0 = self.steps.len();
        let retired = !self.w.reqs[qi].external && self.w.reqs[qi].answered;
        self.inject(src, bytes, "whoareyou", pi, false, None).await;
        if retired {
            // C03: the handler's own record request was answered, it is no longer in flight: a WHOAREYOU
            // that echoes its nonce finds nothing to challenge
            let earlier: Vec<&APkt> = self.steps[..n0].iter().flat_map(|s| s.wires.iter().map(|(_, p)| p)).filter(|p| matches!(p, APkt::Hs { .. })).collect();
            if self.steps[n0..].iter().any(|s| s.wires.iter().any(|(_, p)| matches!(p, APkt::Hs { .. }) && !earlier.contains(&p)) || s.outs.iter().any(|o| matches!(o, AOut::Established(..)))) {
                self.w.failures.push(("C03".into(), "a WHOAREYOU for a request that is no longer in flight (the answered record request) was answered with a handshake".into()));
            }
        }
        if src != right {
            // C03: a WHOAREYOU is acted on only if it comes from the address the request was sent to
            // (a handshake packet that was on the wire before is a retransmission by a timer)
            let earlier: Vec<&APkt> = self.steps[..n0].iter().flat_map(|s| s.wires.iter().map(|(_, p)| p)).filter(|p| matches!(p, APkt::Hs { .. })).collect();
            let acted = self.steps[n0..].iter().any(|s| s.wires.iter().any(|(_, p)| matches!(p, APkt::Hs { .. }) && !earlier.contains(&p)) || s.outs.iter().any(|o| matches!(o, AOut::Established(..)) || matches!(o, AOut::RequestFailed(_, e) if *e != 0)));
            // (a Timeout failure is the work of a timer that fired in the gap before the datagram)
            if acted {
                self.w.failures.push(("C03".into(), "a WHOAREYOU from another address than the one the request was sent to was acted on".into()));
                if self.steps[n0..].iter().any(|s| s.outs.iter().any(|o| matches!(o, AOut::Established(..)))) {
                    self.w.failures.push(("C12".into(), "a node was reported as established because of a packet that did not come from the address its record advertises".into()));
                }
                // C02: the peer's answer, presented from that other address as well, must not be
                // delivered (a session exists for the address the request went to, if at all)
                if self.w.reqs[qi].external && !self.w.peers[pi].keys.is_empty() {
                    let n1 = self.steps.len();
                    self.w.answer_src = Some(src);
                    self.net_answer(rng, FORCE + qi, 6).await;
                    self.w.answer_src = None;
                    if self.steps[n1..].iter().any(|s| s.outs.iter().any(|o| matches!(o, AOut::Response(..)))) {
                        self.w.failures.push(("C02".into(), "a response presented from another source address than the one the request was sent to was delivered".into()));
                    }
                }
            }
        }
    }

    async fn net_replay(&mut self, rng: &mut Rng, idx: usize, other_src: bool) {
        let cands: Vec<usize> = (0..self.w.recorded.len()).filter(|i| self.w.recorded[*i].2 != "out").collect();
        if cands.is_empty() {
            return;
        }
        let (src, bytes, kind, maker) = self.w.recorded[cands[idx % cands.len()]].clone();
        // another source: the address of some peer, or the IPv4-mapped IPv6 form of the original
        // source (another socket address as far as sessions and challenges are concerned)
        let orig_src = src;
        let how = if other_src { 1 + rng.below(3) } else { 0 };
        let mapped = how == 1;
        let src = match how {
            1 => match src {
                SocketAddr::V4(a) => SocketAddr::new(IpAddr::V6(a.ip().to_ipv6_mapped()), a.port()),
                other => other,
            },
            // the same host, another port
            2 => SocketAddr::new(src.ip(), src.port() + 1 + rng.below(3) as u16),
            3 => self.w.peers[rng.below(self.w.peers.len() as u64) as usize].addr,
            _ => src,
        };
        // a handshake whose challenge is consumed (or was never ours) must have no effect
        let k = if kind == "handshake" || kind == "replay-hs" {
            let local = self.w.local_id;
            let cd_consumed = match wire_decode(&local, self.w.pid, &bytes) {
                Ok((p, _)) => match &p.kind {
                    PacketKind::Handshake { id_nonce_sig, .. } => match self.w.sig_terms.get(id_nonce_sig) {
                        Some(ASig::Sig(_, cd, _, _)) => {
                            let cd = *cd;
                            !self.w.out_challenges.iter().any(|(_, c, _, _, _)| self.w.it.map.get(&('c', c.clone())) == Some(&cd))
                        }
                        _ => true,
                    },
                    _ => false,
                },
                Err(_) => false,
            };
            if cd_consumed {
                "replay-hs"
            } else {
                "replay"
            }
        } else {
            "replay"
        };
        let n0 = self.steps.len();
        self.inject(src, bytes, k, maker, false, None).await;
        // (a peer that speaks from an IPv6 address has no mapped form: the replay then comes from its own address)
        if mapped && src != orig_src && matches!(src, SocketAddr::V6(_)) {
            // C02: presenting a datagram from another source address never produces a delivered message
            if self.steps[n0..].iter().any(|s| s.outs.iter().any(|o| matches!(o, AOut::Request(..) | AOut::Response(..) | AOut::Established(..)))) {
                self.w.failures.push(("C02".into(), "a datagram presented from the IPv4-mapped form of its source address was accepted".into()));
            }
        } else if src != orig_src && !(maker < self.w.peers.len() && src == self.w.peers[maker].addr) {
            // (every peer of the harness speaks from one socket address only: no session and no challenge
            // exists for its node id at any other address; a datagram first presented from a wrong
            // address and now from its maker's own address is simply the genuine datagram)
            if self.steps[n0..].iter().any(|s| s.outs.iter().any(|o| matches!(o, AOut::Request(..) | AOut::Response(..) | AOut::Established(..)))) {
                self.w.failures.push(("C02".into(), "a recorded datagram presented from another source address than the one it was sent from was accepted (session created or message delivered)".into()));
            }
        }
    }

    async fn net_mutate(&mut self, idx: usize, how: u8, pos: u64) {
        if self.w.recorded.is_empty() {
            return;
        }
        let (_, bytes0, kind, maker) = self.w.recorded[idx % self.w.recorded.len()].clone();
        if bytes0.is_empty() {
            return;
        }
        let mut bytes = bytes0.clone();
        let src = if kind == "out" { self.w.peers[0].addr } else { self.w.recorded[idx % self.w.recorded.len()].0 };
        match how % 4 {
            0 => {
                let i = (pos % (bytes.len() as u64 * 8)) as usize;
                bytes[i / 8] ^= 1 << (i % 8);
            }
            1 => {
                let l = (pos % bytes.len() as u64) as usize;
                bytes.truncate(l);
            }
            2 => {
                bytes.push((pos & 0xff) as u8);
            }
            _ => {
                // splice: header of this datagram, body of another
                let (_, other, _, _) = self.w.recorded[(pos as usize) % self.w.recorded.len()].clone();
                let cut = 16 + 23 + 32;
                if bytes.len() > cut && other.len() > cut {
                    bytes.truncate(cut);
                    bytes.extend_from_slice(&other[cut..]);
                }
            }
        }
        let mutated = bytes != bytes0;
        self.inject(src, bytes, "mutated", maker, mutated, None).await;
    }
}

// ------------------------------------------------------------------------------------------------

pub const HEADER: &str = "From Coq Require Import List NArith.\nImport ListNotations.\nFrom Discv5V Require Import Model.Handler Run.Common Run.HandlerRun.\nOpen Scope N_scope.";

fn gen_move(rng: &mut Rng, npeers: usize, focus: &str) -> Move {
    let w: &[u64] = match focus {
        "c01" | "c12" => &[10, 1, 14, 6, 14, 24, 8, 8, 6, 6, 4, 6],
        "c02" => &[10, 1, 10, 6, 8, 12, 10, 10, 4, 8, 26, 5],
        "c03" => &[10, 1, 12, 4, 10, 16, 6, 6, 12, 20, 4, 6],
        "c13" | "c13ed" | "c04ed" => &[16, 2, 10, 6, 8, 14, 6, 10, 14, 6, 4, 10],
        _ => &[18, 1, 10, 8, 8, 12, 8, 14, 8, 5, 3, 12],
    };
    let p_secp = rng.below(npeers as u64) as usize;
    // the last peer (index npeers) has an Ed25519 identity; requests are never addressed to it
    let p = if rng.chance(1, 6) { npeers } else { p_secp };
    // focus names ending in "ed" also address requests to the Ed25519 node (monitor-only runs: the
    // model covers secp256k1 contacts only, for which building the handshake cannot fail)
    let p_req = if (focus.ends_with("ed") && rng.chance(1, 3)) || rng.chance(1, 10) { npeers } else { p_secp };
    match rng.weighted(w) {
        0 => Move::AppRequest { peer: p_req, with_enr: rng.chance(2, 3), kind: rng.below(3) as u8 },
        1 => Move::AppSelfRequest,
        2 => Move::AppAnswerWru { idx: rng.below(8) as usize, known: *rng.pick(&[0u8, 1, 2, 3, 3, 4]) },
        3 => Move::AppRespond { idx: rng.below(8) as usize, multi: rng.below(3) as u8 },
        4 => Move::NetRandom { peer: p },
        5 => {
            let other = (p + 1 + rng.below(npeers.max(2) as u64 - 1) as usize) % npeers.max(1);
            let variant = match rng.below(if focus == "c01" || focus == "c12" { 13 } else { 17 }) {
                0 | 1 => HsVariant::ForgedWithOwnRecord(other),
                2 => HsVariant::ForgedNoRecord(other),
                3 => HsVariant::BadSignature,
                4 => HsVariant::BadEphemeral,
                5 => HsVariant::WrongStatic,
                6 => HsVariant::NoRecord,
                7 => HsVariant::OldRecord,
                8 | 9 => HsVariant::Unverifiable,
                10 => HsVariant::TrailingAuthData,
                _ => HsVariant::Honest,
            };
            Move::NetHandshake { ch: rng.below(8) as usize, variant }
        }
        6 => Move::NetRequest { peer: p, old_keys: rng.chance(1, 4), as_other: rng.chance(1, 5) },
        7 => Move::NetAnswer { req: rng.below(16) as usize, style: rng.below(8) as u8 },
        8 => Move::NetWhoAreYou { req: rng.below(16) as usize },
        9 => Move::NetReplay { idx: rng.below(64) as usize, other_src: rng.chance(1, 4) },
        10 => Move::NetMutate { idx: rng.below(64) as usize, how: rng.below(4) as u8, pos: rng.next() },
        _ => Move::Advance { steps: *rng.pick(&[1u64, 3, 40, 120, 201, 210, 420]) },
    }
}

pub struct CaseOut {
    coq: String,
    failures: Vec<(String, String)>,
    steps: usize,
    nontrivial: bool,
    canon: u64,
    hist: Hist,
    moves: Vec<String>,
}

async fn run_case(seed: u64, idx: u64, focus: &str, thorough: bool, fixes: &str) -> CaseOut {
    let mut rng = crate::kb::case_rng(seed ^ 0x68616e64, idx);
    // (the permit/ban list is process-wide: every case starts from an empty one)
    *discv5::verif::filter::PERMIT_BAN_LIST.write() = Default::default();
    let npeers = rng.range(2, 3) as usize;
    let retries = *rng.pick(&[1u8, 1, 2, 3]);
    let capacity = *rng.pick(&[1usize, 2, 1000, 1000]);
    // the session timeout: the default (a day) or a few request timeouts, so that sessions expire
    // between exchanges (the cache reads the paused tokio clock in these runs)
    let ttl_ms: u64 = if focus == "c15x" { *rng.pick(&[1500u64, 1500, 2500, 4000]) } else { *rng.pick(&[86_400_000u64, 86_400_000, 1500, 2500, 4000]) };
    let mut r = Runner::new_with(&mut rng, npeers, retries, capacity, Some(Duration::from_millis(ttl_ms))).await;
    r.w.dup_ids = focus == "c19dup";
    let nmoves = if thorough { rng.range(30, 90) } else { rng.range(15, 45) };
    let focus_prop = focus.chars().take(3).collect::<String>().to_uppercase();
    let mut moves = vec![];
    // scripted opening for the nonce property: several requests under the first keys, a re-key
    // started by the peer (it challenges an in-flight request), a message of the peer still under
    // the first keys (the session falls back to them), then further requests
    if (focus == "c19" && rng.chance(1, 3)) || (matches!(focus, "c01" | "c02") && rng.chance(1, 5)) || (matches!(focus, "c20" | "c14") && rng.chance(1, 4)) {
        let p = rng.below(npeers as u64) as usize;
        r.app_request(&mut rng, p, true, 0).await;
        let q0 = r.w.reqs.len() - 1;
        r.net_whoareyou(&mut rng, FORCE + q0).await;
        r.net_answer(&mut rng, FORCE + q0, 6).await;
        for _ in 0..rng.range(1, 3) {
            r.app_request(&mut rng, p, true, 0).await;
        }
        let q1 = r.w.reqs.len() - 1;
        r.net_whoareyou(&mut rng, FORCE + q1).await;
        r.net_request(&mut rng, p, true, false).await;
        // (the application answers the request that came in under the previous keys at once: the
        // answer must be readable for a peer that still uses them)
        if matches!(focus, "c20" | "c14") {
            let body_kind = rng.below(3) as u8;
            r.app_respond(&mut rng, FORCE, body_kind).await;
        }
        for _ in 0..rng.range(1, 3) {
            r.app_request(&mut rng, p, true, 2).await;
        }
        moves.push("scripted: requests, re-key by the peer, message under the old keys, requests".into());
        // ... and then datagrams in the peer's name sealed under keys that no handshake produced (the
        // retired generation of keys must be gone or intact, never replaced by something guessable)
        if matches!(focus, "c01" | "c02") {
            for k in [0u8, 1, 0] {
                r.w.force_junk = Some(k);
                r.net_request(&mut rng, p, false, false).await;
            }
            moves.push("scripted: three datagrams of the peer under the all-zero / all-ones key".into());
        }
    }
    // scripted opening for session expiry (short session timeouts only): sessions with one or two
    // peers, silence for longer than the timeout (or just short of it), then traffic in either
    // direction and a new session with another peer (which purges and reports the expired ones)
    if ttl_ms < 10_000 && rng.chance(if focus == "c15x" { 2 } else { 1 }, 3) {
        let p = rng.below(npeers as u64) as usize;
        let q = (p + 1) % npeers;
        r.app_request(&mut rng, p, true, 0).await;
        let q0 = r.w.reqs.len() - 1;
        r.net_whoareyou(&mut rng, FORCE + q0).await;
        r.net_answer(&mut rng, FORCE + q0, 6).await;
        if rng.chance(1, 2) {
            r.app_request(&mut rng, q, true, 0).await;
            let q1 = r.w.reqs.len() - 1;
            r.net_whoareyou(&mut rng, FORCE + q1).await;
            r.net_answer(&mut rng, FORCE + q1, 6).await;
        }
        // variant: the session timeout elapses inside a handshake round trip - a request goes out on
        // the still valid session, the peer's WHOAREYOU for it arrives after the session has expired
        // (the new session must not inherit the keys of the expired one), then a datagram under the
        // old keys arrives
        if retries >= 2 && ttl_ms < TIMEOUT_MS * 2 - 100 && rng.chance(if focus == "c15x" { 2 } else { 1 }, 3) {
            r.app_request(&mut rng, p, true, 0).await;
            let q3 = r.w.reqs.len() - 1;
            r.advance(ttl_ms / GRID_MS + 2 + rng.below(20)).await;
            r.net_whoareyou(&mut rng, FORCE + q3).await;
            let n_old = r.steps.len();
            let had_old_keys = r.w.peers[p].keys.len() >= 2;
            r.net_request(&mut rng, p, true, false).await;
            if had_old_keys && r.steps[n_old..].iter().any(|s| s.outs.iter().any(|o| matches!(o, AOut::Request(..)))) {
                r.w.failures.push(("C15".into(), "a message under the keys of a session that had expired before the new handshake was accepted".into()));
            }
            r.net_request(&mut rng, p, false, false).await;
            r.w.hist.add("scripted:session_expires_inside_handshake");
            moves.push("scripted: request on a valid session, WHOAREYOU after the session expired, datagram under the old keys".into());
        }
        // idle: around the session timeout (the boundary itself included)
        let idle = match rng.below(4) {
            0 => ttl_ms / GRID_MS - 3,
            1 => ttl_ms / GRID_MS - 1,
            2 => ttl_ms / GRID_MS + 1,
            _ => ttl_ms / GRID_MS + 40,
        };
        r.advance(idle).await;
        match rng.below(4) {
            0 => r.app_request(&mut rng, p, true, 2).await,
            1 => r.net_request(&mut rng, p, false, false).await,
            2 => {
                r.net_random(&mut rng, q).await;
                r.app_answer_wru(0, 1).await;
                r.net_handshake(&mut rng, FORCE, HsVariant::Honest).await;
            }
            _ => {
                r.app_request(&mut rng, q, false, 0).await;
                let q2 = r.w.reqs.len() - 1;
                r.net_whoareyou(&mut rng, FORCE + q2).await;
            }
        }
        r.w.hist.add("scripted:session_expiry");
        moves.push(format!("scripted: sessions, idle for {} ms (session timeout {} ms), then traffic", idle * GRID_MS, ttl_ms));
    }
    // scripted opening: a challenge must not live longer than its timeout - a second undecryptable
    // packet of the same peer (and the application's answer to the second who-are-you query) arrives
    // while the challenge is outstanding; the handshake for the FIRST challenge then arrives after its
    // timeout has run out
    if focus == "c03" && rng.chance(1, 5) {
        let p = rng.below(npeers as u64) as usize;
        r.net_random(&mut rng, p).await;
        r.app_answer_wru(0, 1 + rng.below(3) as u8).await;
        let first = rng.range(60, 180);
        r.advance(first).await;
        if rng.chance(1, 2) {
            r.net_random(&mut rng, p).await;
            r.app_answer_wru(0, 1 + rng.below(3) as u8).await;
        } else {
            // ... or a request of the application to that peer, which waits behind the challenge (and
            // must not prolong it)
            r.app_request(&mut rng, p, true, 0).await;
        }
        r.advance(TIMEOUT_MS / GRID_MS + 4 - first).await;
        r.net_handshake(&mut rng, 3, HsVariant::Honest).await;
        r.w.hist.add("scripted:second_packet_while_challenged_then_late_handshake");
        moves.push(format!("scripted: packet of peer {}, challenge, second packet after {} ms, handshake after the first challenge expired", p, first * GRID_MS));
    }
    // scripted opening: a burst of outcomes - sixty requests to a peer that never answers are queued
    // behind the first one and all fail in the step in which it gives up (the channel to the
    // application holds 50 reports: every one of them must still arrive)
    if focus == "c04" && rng.chance(1, 16) {
        let p = rng.below(npeers as u64) as usize;
        for _ in 0..60 {
            r.app_request(&mut rng, p, true, 0).await;
        }
        r.advance((retries as u64) * (TIMEOUT_MS / GRID_MS + 2) + 4).await;
        r.w.hist.add("scripted:burst_of_sixty_outcomes");
        moves.push(format!("scripted: sixty requests to silent peer {}, then its request times out", p));
    }
    // scripted opening: a FINDNODE answered by a NODES response in three packets (all delivered, or
    // one missing), another request to the same peer in flight, then a full timeout passes
    if matches!(focus, "c04" | "c13") && rng.chance(1, 5) {
        let p = rng.below(npeers as u64) as usize;
        r.app_request(&mut rng, p, true, 1).await;
        let q0 = r.w.reqs.len() - 1;
        r.net_whoareyou(&mut rng, FORCE + q0).await;
        let packets = if rng.chance(2, 3) { 3 } else { 2 };
        for i in 0..packets {
            r.net_answer(&mut rng, FORCE + q0, 1).await;
            if i == 1 && rng.chance(1, 2) {
                r.app_request(&mut rng, p, true, 0).await;
            }
        }
        r.advance(TIMEOUT_MS / GRID_MS + 2).await;
        moves.push(format!("scripted: FINDNODE to peer {}, challenged, answered by {} of 3 NODES packets, a timeout passes", p, packets));
    }
    // scripted opening: the application's answer to a who-are-you query arrives after a session with
    // that peer has been set up the other way round, so a challenge is outstanding next to a live
    // session; a request submitted in that window waits for the challenge and is no use of the
    // session: when the session timeout falls between that request and the end of the challenge,
    // the queued request needs a fresh handshake
    if matches!(focus, "c15" | "c15x") && ttl_ms < 10_000 && rng.chance(1, 3) {
        let p = rng.below(npeers as u64) as usize;
        r.net_random(&mut rng, p).await;
        r.app_request(&mut rng, p, true, 0).await;
        let q0 = r.w.reqs.len() - 1;
        r.net_whoareyou(&mut rng, FORCE + q0).await;
        r.net_answer(&mut rng, FORCE + q0, 6).await;
        // the challenge lives for one request timeout; it is sent so that the session timeout falls
        // into its lifetime (or just outside)
        let before = *rng.pick(&[700u64, 600, 400, 150]);
        r.advance((ttl_ms - before) / GRID_MS).await;
        r.app_answer_wru(0, 1 + rng.below(3) as u8).await;
        r.advance(rng.range(10, (before.min(900) / GRID_MS).max(12) - 4)).await;
        r.app_request(&mut rng, p, true, 0).await;
        r.advance(TIMEOUT_MS / GRID_MS + 4).await;
        r.w.hist.add("scripted:request_queued_behind_a_challenge_next_to_a_session");
        moves.push(format!("scripted: who-are-you query for peer {}, session set up by a request of ours, challenge {} ms before the session timeout, request while challenged", p, before));
    }
    // scripted opening: the application bans the address of a peer while requests to it are in flight.
    // A ban (like an exhausted quota) stops what is unsolicited, never the answers this node is
    // waiting for: a PING and a FINDNODE to the banned address are answered (the NODES answer in three
    // packets) and both complete with their responses
    if matches!(focus, "c04" | "c13" | "c11") && rng.chance(1, 5) {
        let p = rng.below(npeers as u64) as usize;
        r.app_request(&mut rng, p, true, 0).await;
        let q0 = r.w.reqs.len() - 1;
        r.net_whoareyou(&mut rng, FORCE + q0).await;
        r.net_answer(&mut rng, FORCE + q0, 6).await;
        let ip = r.w.peers[p].addr.ip();
        discv5::verif::filter::PERMIT_BAN_LIST.write().ban_ips.insert(ip, None);
        let n0 = r.w.reqs.len();
        r.app_request(&mut rng, p, true, 0).await;
        r.app_request(&mut rng, p, true, 1).await;
        if r.w.reqs.len() == n0 + 2 && r.w.reqs[n0].first_tx > 0 && r.w.reqs[n0 + 1].first_tx > 0 {
            let order = rng.chance(1, 2);
            if order {
                r.net_answer(&mut rng, FORCE + n0, 6).await;
            }
            for _ in 0..3 {
                r.net_answer(&mut rng, FORCE + n0 + 1, 1).await;
            }
            if !order {
                r.net_answer(&mut rng, FORCE + n0, 6).await;
            }
            let done: Vec<bool> = (n0..n0 + 2).map(|i| r.w.reqs[i].terminal == 1 && r.w.reqs[i].answered).collect();
            if !done[0] || !done[1] {
                let what = format!("a request to an address the application had banned was answered in time but did not complete with its response (ping: {}, findnode in three packets: {}): the answers to this node's own requests are solicited", done[0], done[1]);
                r.w.failures.push(("C04".into(), what.clone()));
                r.w.failures.push(("C13".into(), what.clone()));
                if !done[1] {
                    r.w.failures.push(("C11".into(), "the later packets of an honest responder's NODES answer were treated as unsolicited traffic (quotas and bans apply to them)".into()));
                }
            }
            r.w.hist.add("scripted:answers_from_a_banned_address");
        }
        discv5::verif::filter::PERMIT_BAN_LIST.write().ban_ips.remove(&ip);
        moves.push(format!("scripted: session with peer {}, its address banned, a PING and a FINDNODE answered (NODES in three packets)", p));
    }
    // scripted opening: the application knows a record of the peer that advertises another address than
    // the peer speaks from (given by the user, or learnt from a NODES answer); the peer's handshake
    // attaches no record: the session is set up, but the node is reported as unverifiable, not as
    // established (it must not be admitted on the strength of a record nobody checked against a source)
    if matches!(focus, "c12" | "c01") && rng.chance(1, 6) {
        let p = rng.below(npeers as u64) as usize;
        r.net_random(&mut rng, p).await;
        r.app_answer_wru(0, 4).await;
        r.net_handshake(&mut rng, FORCE, HsVariant::NoRecord).await;
        r.w.hist.add("scripted:known_record_with_another_address_then_handshake_without_record");
        moves.push(format!("scripted: packet of peer {}, the application answers with a record that advertises another address, handshake without a record", p));
    }
    // scripted opening: a peer challenges a request of ours, gets the handshake and challenges again,
    // echoing the handshake packet's nonce: one handshake per request, the request fails
    if focus == "c03" && retries >= 2 && rng.chance(1, 4) {
        let p = rng.below(npeers as u64) as usize;
        r.app_request(&mut rng, p, true, 0).await;
        let q0 = r.w.reqs.len() - 1;
        r.net_whoareyou(&mut rng, FORCE + q0).await;
        r.net_whoareyou(&mut rng, FORCE + q0).await;
        r.net_whoareyou(&mut rng, FORCE + q0).await;
        r.w.hist.add("scripted:second_whoareyou_for_the_handshake_packet");
        moves.push(format!("scripted: request to peer {}, challenged, challenged again for the handshake packet", p));
    }
    // scripted opening: two handshakes in a row for one challenge, both signed by another node - the first
    // attaches that node's own record (rejected, the challenge stays), the second attaches none (it must
    // not be verified against the record the first one brought along)
    if matches!(focus, "c01" | "c02") && npeers >= 2 && rng.chance(1, 6) {
        let p = rng.below(npeers as u64) as usize;
        let other = (p + 1) % npeers;
        r.net_random(&mut rng, p).await;
        r.app_answer_wru(0, *rng.pick(&[0u8, 1, 3])).await;
        r.net_handshake(&mut rng, FORCE, HsVariant::ForgedWithOwnRecord(other)).await;
        r.net_handshake(&mut rng, FORCE, HsVariant::ForgedNoRecord(other)).await;
        r.w.hist.add("scripted:forged_handshake_with_record_then_without");
        moves.push(format!("scripted: packet of peer {}, challenge, handshake signed by peer {} with its own record, then one without a record", p, other));
    }
    // scripted opening: a peer with a session sends forty requests, the application answers all of
    // them at once
    if matches!(focus, "c20" | "c14") && rng.chance(1, 6) {
        let p = rng.below(npeers as u64) as usize;
        r.app_request(&mut rng, p, true, 0).await;
        let q0 = r.w.reqs.len() - 1;
        r.net_whoareyou(&mut rng, FORCE + q0).await;
        r.net_answer(&mut rng, FORCE + q0, 6).await;
        let n = rng.range(31, 44);
        let since = r.steps.len();
        for _ in 0..n {
            r.net_request(&mut rng, p, false, false).await;
        }
        r.app_respond_burst(&mut rng, p, since).await;
        moves.push(format!("scripted: session with peer {}, {} requests of the peer, all answered at once", p, n));
    }
    // scripted opening: dial a peer whose record is unknown; the peer challenges, we answer with a
    // handshake and ask for its record; the peer answers that request with its own or another record
    let p_script = match focus { "c01" => 3, "c12" => 3, "c20" => 3, "c14" => 3, _ => 8 };
    if rng.chance(1, p_script) {
        let p = rng.below(npeers as u64) as usize;
        r.app_request(&mut rng, p, false, 0).await;
        let q0 = r.w.reqs.len() - 1;
        moves.push(format!("scripted: request without record to peer {}", p));
        r.net_whoareyou(&mut rng, FORCE + q0).await;
        moves.push("scripted: the peer challenges that request".into());
        // (the peer may send a request of its own before it answers the record request: it is
        // delivered and answered like any other)
        if rng.chance(1, 2) {
            r.net_request(&mut rng, p, false, false).await;
            let body_kind = rng.below(3) as u8;
            r.app_respond(&mut rng, FORCE, body_kind).await;
            moves.push("scripted: a request of the peer on the new session, answered at once".into());
        }
        if let Some(qi) = (0..r.w.reqs.len()).rev().find(|i| !r.w.reqs[*i].external && r.w.reqs[*i].peer == p) {
            r.net_answer(&mut rng, FORCE + qi, 0).await;
            moves.push("scripted: the peer answers the internal record request".into());
        }
    }
    r.w.junk_keys = true;
    for _ in 0..nmoves {
        let m = gen_move(&mut rng, npeers, focus);
        moves.push(format!("{:?}", m));
        r.w.hist.add(&format!("move:{}", format!("{:?}", m).split(|c| c == ' ' || c == '{').next().unwrap()));
        match m {
            Move::AppRequest { peer, with_enr, kind } => r.app_request(&mut rng, peer, with_enr, kind).await,
            Move::AppSelfRequest => r.app_self_request(&mut rng).await,
            Move::AppAnswerWru { idx, known } => r.app_answer_wru(idx, known).await,
            Move::AppRespond { idx, multi } => r.app_respond(&mut rng, idx, multi).await,
            Move::NetRandom { peer } => r.net_random(&mut rng, peer).await,
            Move::NetHandshake { ch, variant } => r.net_handshake(&mut rng, ch, variant).await,
            Move::NetRequest { peer, old_keys, as_other } => r.net_request(&mut rng, peer, old_keys, as_other).await,
            Move::NetAnswer { req, style } => r.net_answer(&mut rng, req, style).await,
            Move::NetWhoAreYou { req } => r.net_whoareyou(&mut rng, req).await,
            Move::NetReplay { idx, other_src } => r.net_replay(&mut rng, idx, other_src).await,
            Move::NetMutate { idx, how, pos } => r.net_mutate(idx, how, pos).await,
            Move::Advance { steps } => {
                // focus c19dup (monitor-only): the application updates the local record now and then (a
                // handshake packet in flight that carried the old record is retransmitted as it is)
                if r.w.dup_ids && rng.chance(1, 3) {
                    if let Some(a) = r.w.local_enr_shared.clone() {
                        let mut e = a.write();
                        let q = e.seq();
                        let _ = e.set_seq(q + 1, &r.w.local_key);
                        r.w.hist.add("local_record:sequence_number_raised");
                    }
                }
                r.advance(steps).await
            }
        }
        // a case ends at the first failure of the property in focus; failures of other properties
        // are recorded (and reported by their own checks) but do not cut the history short
        if r.w.failures.iter().any(|f| f.0 == focus_prop) {
            break;
        }
    }
    // drain: let every timer expire, then everything must be settled
    if !r.w.failures.iter().any(|f| f.0 == focus_prop) {
        for _ in 0..(retries as u64 + 2) {
            r.advance(TIMEOUT_MS / GRID_MS + 2).await;
        }
        let leftover: Vec<(SocketAddr, usize)> = r.vh.exemptions.read().iter().map(|(a, c)| (*a, *c)).collect();
        if !leftover.is_empty() {
            r.w.failures.push(("C13".into(), format!("filter exemptions remain after every request and challenge has ended: {:?}", leftover)));
            // (the same fact from the filter's side: unsolicited datagrams from these addresses skip
            // both filter stages - quotas and ban lists - for as long as the node runs)
            r.w.failures.push(("C18".into(), "an address stays exempt from the packet filter although nothing is awaited from it: its unsolicited datagrams bypass quotas and bans".into()));
        }
        let unsettled: Vec<u64> = r.w.reqs.iter().filter(|q| q.external && q.terminal != 1).map(|q| q.rid).collect();
        for q in r.w.reqs.iter().filter(|q| q.external) {
            if q.terminal == 0 {
                r.w.failures.push(("C04".into(), "a submitted request never received an outcome (no response, no failure)".into()));
                break;
            }
        }
        let _ = unsettled;
    }
    r.vh.shutdown();
    // Coq case
    let local = r.w.it.id(&r.w.local_id.clone());
    let lenr = r.w.it.enr(&r.w.local_enr.clone());
    let listen = r.w.it.addr(&r.w.local_addr.clone());
    let f: Vec<&str> = fixes.split(',').collect();
    let fx = |n: &str| coq_bool(f.contains(&n) || f.contains(&"all"));
    let cfg = format!(
        "(Cfg {} {} {} {} [{}] {} {} {} {} {} {} {})",
        local,
        lenr.coq(),
        retries,
        TIMEOUT_MS,
        listen,
        capacity,
        ttl_ms,
        GRID_MS,
        fx("d1"),
        fx("d2a"),
        fx("d2b"),
        fx("d6")
    );
    // internal request ids are drawn in the step that answers a WHOAREYOU for a contact without a
    // record, but may reach the wire only later: attribute each to the oldest such step of its peer
    if false {
        let mut open: Vec<(usize, usize)> = vec![]; // (step index, peer)
        for j in 0..r.steps.len() {
            if let Some(pi) = r.steps[j].hs_no_enr {
                open.push((j, pi));
            }
            let news = r.steps[j].new_internal.clone();
            for (pi, rid) in news {
                if let Some(pos) = open.iter().position(|(_, p)| *p == pi) {
                    let (sj, _) = open.remove(pos);
                    r.steps[sj].draws_rid.push(rid);
                }
            }
        }
    }
    let mut steps = vec![];
    let mut h: u64 = 1469598103934665603;
    for s in &r.steps {
        let mut e = Enc::new();
        e.n(s.outs.len() as u64);
        for o in &s.outs {
            o.enc(&mut e);
        }
        e.n(s.wires.len() as u64);
        for (d, p) in &s.wires {
            e.n(d.0).n(d.1);
            p.enc(&mut e);
        }
        e.n(s.exemptions.len() as u64);
        for (a, c) in &s.exemptions {
            e.n(*a).n(*c);
        }
        e.n(s.sessions);
        let pk: Vec<String> = s.draws_pk.iter().map(|d| format!("({}, {}, {}, {})", d.0, d.1, d.2, d.3)).collect();
        let rid: Vec<String> = s.draws_rid.iter().map(|d| d.to_string()).collect();
        steps.push(format!("({}, {}, D {} {}, {})", s.coq_event, s.now, coq_list(&pk), coq_list(&rid), e.coq()));
        for x in s.coq_event.split(' ').take(1) {
            for c in x.bytes() {
                h = (h ^ c as u64).wrapping_mul(1099511628211);
            }
        }
        h = (h ^ (s.outs.len() as u64 * 7 + s.wires.len() as u64)).wrapping_mul(1099511628211);
    }
    let coq = format!("({}, {},\n [{}])", idx, cfg, steps.join(";\n  "));
    let established = r.steps.iter().any(|s| s.outs.iter().any(|o| matches!(o, AOut::Established(..))));
    let mut failures: Vec<(String, String)> = vec![];
    for f in &r.w.failures {
        if !failures.contains(f) {
            failures.push(f.clone());
        }
    }
    CaseOut { coq, failures, steps: r.steps.len(), nontrivial: established, canon: h, hist: r.w.hist.clone(), moves }
}

/// C15 at handler level (monitor only; the handler model has no expiry): a session idle for longer
/// than the session timeout must not be used again - the next request goes out as a random packet
/// (fresh handshake) and an encrypted message from the peer is answered with a who-are-you request.
/// The cache reads the real clock, so these cases sleep in real time.
async fn run_c15_case(seed: u64, idx: u64) -> (Vec<(String, String)>, Vec<String>, bool) {
    let mut rng = crate::kb::case_rng(seed ^ 0x63313563, idx);
    let ttl_ms = 120u64;
    let mut r = Runner::new_with(&mut rng, 2, 1, 1000, Some(Duration::from_millis(ttl_ms))).await;
    let mut script = vec![];
    // establish: the peer sends a random packet, we challenge, the peer completes the handshake
    r.net_random(&mut rng, 0).await;
    r.app_answer_wru(0, 1).await;
    r.net_handshake(&mut rng, FORCE, HsVariant::Honest).await;
    let established = r.steps.iter().any(|s| s.outs.iter().any(|o| matches!(o, AOut::Established(..))));
    script.push(format!("establish session with peer 0: {}", established));
    // optional traffic before the timeout (refreshes the session), in either direction
    let refresh = rng.below(3);
    let idle_short = rng.chance(1, 3);
    std::thread::sleep(Duration::from_millis(60));
    match refresh {
        1 => r.app_request(&mut rng, 0, true, 0).await,
        2 => r.net_request(&mut rng, 0, false, false).await,
        _ => {}
    }
    script.push(format!("after 60 ms: refresh kind {}", refresh));
    // idle: shorter or longer than the timeout, measured from the last use
    let idle = if idle_short { 40 } else { ttl_ms + 60 };
    std::thread::sleep(Duration::from_millis(idle));
    script.push(format!("idle {} ms (timeout {} ms)", idle + if refresh == 0 { 60 } else { 0 }, ttl_ms));
    let expect_expired = if refresh == 0 { 60 + idle > ttl_ms + 20 } else { idle > ttl_ms + 20 };
    let expect_alive = if refresh == 0 { 60 + idle + 20 < ttl_ms } else { idle + 20 < ttl_ms };
    let n0 = r.steps.len();
    let outbound = rng.chance(1, 2);
    if outbound {
        r.app_request(&mut rng, 0, true, 0).await;
        let used_session = r.steps[n0..].iter().any(|s| s.wires.iter().any(|(_, p)| matches!(p, APkt::Msg { ct: ACt::Enc(..), .. })));
        let random_packet = r.steps[n0..].iter().any(|s| s.wires.iter().any(|(_, p)| matches!(p, APkt::Msg { ct: ACt::Junk(..), .. })));
        script.push(format!("request to the peer: encrypted with the session = {}, random packet = {}", used_session, random_packet));
        if expect_expired && used_session {
            r.w.failures.push(("C15".into(), "a session idle for longer than the session timeout was used to encrypt a request".into()));
        }
        if expect_alive && !used_session {
            r.w.failures.push(("C15".into(), "a session used within the timeout was not used for the next request".into()));
        }
    } else {
        r.net_request(&mut rng, 0, false, false).await;
        let delivered = r.steps[n0..].iter().any(|s| s.outs.iter().any(|o| matches!(o, AOut::Request(..))));
        let wru = r.steps[n0..].iter().any(|s| s.outs.iter().any(|o| matches!(o, AOut::WhoAreYou(..))));
        script.push(format!("encrypted request from the peer: delivered = {}, who-are-you = {}", delivered, wru));
        if expect_expired && delivered {
            r.w.failures.push(("C15".into(), "a session idle for longer than the session timeout was used to accept a message".into()));
        }
        if expect_alive && !delivered {
            r.w.failures.push(("C15".into(), "a session used within the timeout did not accept a message".into()));
        }
    }
    r.vh.shutdown();
    // only C15 verdicts count here: the other monitors' ledgers are not maintained across real sleeps
    let f: Vec<(String, String)> = r.w.failures.iter().filter(|(p, _)| p == "C15").cloned().collect();
    (f, script, expect_expired)
}

/// `harness hnd --focus c01|c02|c03|c04|c13|c19 --fixes d1,d2a,d2b,d6|all|none --seed S --cases N --out DIR [--only I]`
pub fn main(args: &[String]) {
    let o = parse_opts(args);
    let mut focus = "c04".to_string();
    let mut fixes = "all".to_string();
    let mut only: Option<u64> = None;
    let mut i = 0;
    while i < o.rest.len() {
        match o.rest[i].as_str() {
            "--focus" => {
                focus = o.rest[i + 1].clone();
                i += 1;
            }
            "--fixes" => {
                fixes = o.rest[i + 1].clone();
                i += 1;
            }
            "--only" => {
                only = Some(o.rest[i + 1].parse().unwrap());
                i += 1;
            }
            _ => {}
        }
        i += 1;
    }
    let mut sum = Summary::new(&format!("hnd/{}", focus));
    let mut w = CaseWriter::new(&o.out, "hnd_cases", HEADER, "hcase", "check_all", 12);
    let mut canon: BTreeSet<u64> = BTreeSet::new();
    let mut seen_sig: BTreeSet<String> = BTreeSet::new();
    let range: Vec<u64> = match only {
        Some(x) => vec![x],
        None => (0..o.cases).collect(),
    };
    // the session cache reads the paused tokio clock, except in the c15 runs, which use real sleeps
    discv5::verif::cache::set_virtual_clock(focus != "c15");
    if focus == "c15" {
        let mut n_expired = 0u64;
        for idx in range {
            let rt = tokio::runtime::Builder::new_current_thread().enable_all().start_paused(true).build().unwrap();
            let (fails, script, expired) = rt.block_on(run_c15_case(o.seed, idx));
            drop(rt);
            sum.evaluations += 1;
            if expired {
                n_expired += 1;
            }
            sum.hist.add(if expired { "c15:idle_longer_than_timeout" } else { "c15:idle_shorter_or_ambiguous" });
            if sum.samples.len() < 3 {
                sum.samples.push(J::obj(vec![("case", J::I(idx as i64)), ("script", J::A(script.iter().map(|x| J::s(x.clone())).collect()))]));
            }
            for (prop, desc) in fails {
                let sig = format!("{}:{}", prop, desc);
                if seen_sig.insert(sig.clone()) || only.is_some() {
                    let file = o.out.join(format!("failure_{}_{}.json", prop, idx));
                    let j = J::obj(vec![("component", J::s("hnd")), ("focus", J::s("c15")), ("property", J::s(prop.clone())), ("seed", J::I(o.seed as i64)), ("case", J::I(idx as i64)), ("what", J::s(desc.clone())), ("script", J::A(script.iter().map(|x| J::s(x.clone())).collect()))]);
                    std::fs::write(&file, j.render()).unwrap();
                    sum.monitor_failures.push((sig, desc, file.to_string_lossy().to_string()));
                }
            }
        }
        sum.distinct_nontrivial = n_expired.min(sum.evaluations);
        sum.rule = "handler-level session expiry on the real clock: establish a session (session timeout 120 ms), optional refreshing traffic in either direction, idle shorter or longer than the timeout, then a request to the peer or an encrypted request from it; non-trivial = the idle period exceeded the timeout".into();
        sum.write(&o.out);
        println!("hnd/c15: {} cases, {} with an expired session, {} monitor failure signatures", sum.evaluations, n_expired, sum.monitor_failures.len());
        return;
    }
    for idx in range {
        let rt = tokio::runtime::Builder::new_current_thread().enable_all().start_paused(true).build().unwrap();
        let c = rt.block_on(run_case(o.seed, idx, &focus, o.thorough, &fixes));
        drop(rt);
        sum.evaluations += 1;
        sum.steps += c.steps as u64;
        if c.nontrivial && canon.insert(c.canon) {
            sum.distinct_nontrivial += 1;
        }
        for (k, v) in &c.hist.0 {
            sum.hist.addn(k, *v);
        }
        if sum.samples.len() < 2 {
            sum.samples.push(J::obj(vec![("case", J::I(idx as i64)), ("seed", J::I(o.seed as i64)), ("moves", J::A(c.moves.iter().take(12).map(|m| J::s(m.clone())).collect()))]));
        }
        for (prop, desc) in &c.failures {
            let sig: String = desc.chars().map(|c| if c.is_ascii_digit() { '#' } else { c }).collect();
            let sig = format!("{}:{}", prop, sig.split(": [").next().unwrap());
            if seen_sig.insert(sig.clone()) || only.is_some() {
                let file = o.out.join(format!("failure_{}_{}.json", prop, idx));
                let j = J::obj(vec![
                    ("component", J::s("hnd")),
                    ("focus", J::s(focus.clone())),
                    ("property", J::s(prop.clone())),
                    ("seed", J::I(o.seed as i64)),
                    ("case", J::I(idx as i64)),
                    ("what", J::s(desc.clone())),
                    ("moves", J::A(c.moves.iter().map(|m| J::s(m.clone())).collect())),
                ]);
                std::fs::write(&file, j.render()).unwrap();
                sum.monitor_failures.push((sig, desc.clone(), file.to_string_lossy().to_string()));
            }
        }
        w.push(c.coq);
    }
    w.flush();
    sum.case_files = w.files.clone();
    sum.rule = "event histories against the real Handler on a virtual wire with a paused clock: application requests (with/without record, to self), who-are-you answers, responses; a scripted peer/attacker built from the crate's own crypto sends random packets, handshakes (honest, forged with own record, forged without record, bad signature, invalid ephemeral key, wrong static key, no/old record), encrypted requests under current/old keys, answers (PONG, single/multi NODES, wrong/empty ENR answers), WHOAREYOUs (first/second, wrong source), replays from the same/another address, bit-flip/truncate/extend/splice mutations; time advances across retransmission and challenge timeouts; a case is non-trivial if a session was established, distinct by the hash of its event/outcome shape".into();
    sum.write(&o.out);
    println!("hnd: {} cases, {} steps, {} distinct non-trivial, {} monitor failure signatures", sum.evaluations, sum.steps, sum.distinct_nontrivial, sum.monitor_failures.len());
}
